"""C09 — Inferred types agree with Gleam's typing (only the operator table is decided)."""
import re

from lib import flow as FL
from lib import teval
from lib.facts import callee, callee_def, op_local

META = {
    "level": "other",
    "technique": "static analysis: table extraction from MIR switch terminators (token kind -> operator kind -> typing arm) compared with Gleam's operator typing and with the parser's binding-power table",
    "rule": "Y12 every child expression, pattern and statement of every Expr / Pattern / Statement variant reaches a function that gives it a type (visitor completeness of the inferencer, the analysis of C05 S1); Y13 = C10 Q14 (the memo of infer_expr is filled by the inference of that expression only: an entry made elsewhere ends the inference of the expression before it began). Y4 the inferencer's resolver is swapped only by save-and-restore on every path; Y3 freezing a type variable restores its table entry on every path; Y2 the call graph that forms the inference groups resolves a variable with an expression-level resolver (a local binder named "
            "like a top-level function is not a call edge); Y1 every binary operator the parser accepts (infix_bp != None, except |>) has an operator kind in BinaryOp::op_details, "
            "and that kind reaches an arm of the inferencer that unifies the operands with each other and with the operand type Gleam "
            "prescribes, and yields Gleam's result type (Int/Float arithmetic, Int/Float comparison -> Bool, equality -> Bool, "
            "boolean -> Bool, <> -> String). One obligation per operator token. Y5 every arm of infer_pattern that says something about the matched value constrains the pattern's own type variable. Y8 the idx counter runs on across the members of a recursion group. Y7 unify picks the idx of two unsolved variables from both values. Y6 dependency_order_query traverses the body of every function of the module (the groups are complete). Y9 every function of a group is frozen with naming state of its own. Y10 the declared type of a record field is instantiated with the resolver of the declaring module. Y11 what is entered into a scratch collection of the inference context (the aliases being expanded) is taken out again on every path to return.",
    "explanation": "C09 as a whole quantifies over programs and feature interactions of a union-find unifier; no shape argument decides "
                   "it and this check does not pretend to. One clause is structural and necessary: an operator without a typing rule "
                   "leaves every expression using it (and everything bound to it) untyped. That clause is decided for all 22 operators. Y21 label reordering keeps declaration order (no swap_remove / sort / reverse in infer_pattern and unify). Y22 the memo of instantiated parts lives for one instantiation. Y23 = C04 G1 (operator grouping).",
    "not_decided": "everything else in C09: unification, generalisation, labels, pipelines, use, case, cross-module calls (behavioural).",
    "trusted_base": ["Gleam's operator typing as encoded in ORACLE", "rustc MIR"],
    "assumptions": [],
}

SK = "syntax::kind::SyntaxKind"
BK = "syntax::ast::BinaryOpKind"
# operand type, result type ('same' = the operand type)
ORACLE = {
    "PLUS": ("Int", "same"), "MINUS": ("Int", "same"), "STAR": ("Int", "same"), "SLASH": ("Int", "same"), "PERCENT": ("Int", "same"),
    "PLUS_DOT": ("Float", "same"), "MINUS_DOT": ("Float", "same"), "STAR_DOT": ("Float", "same"), "SLASH_DOT": ("Float", "same"),
    "LESS": ("Int", "Bool"), "LESS_EQ": ("Int", "Bool"), "GREATER": ("Int", "Bool"), "GREATER_EQ": ("Int", "Bool"),
    "LESS_DOT": ("Float", "Bool"), "LESS_EQ_DOT": ("Float", "Bool"), "GREATER_DOT": ("Float", "Bool"), "GREATER_EQ_DOT": ("Float", "Bool"),
    "EQ_EQ": (None, "Bool"), "NOT_EQ": (None, "Bool"),
    "AMPER_AMPER": ("Bool", "same"), "VBAR_VBAR": ("Bool", "same"),
    "LT_GT": ("String", "same"),
}


def op_table(F):
    """token kind -> BinaryOpKind variant, read from the switch in BinaryOp::op_details's closure"""
    cl = F.fn("syntax::ast::BinaryOp::op_details::{closure#0}")
    d = FL.Defs(cl)
    dm = F.discr_map(SK)
    for b in sorted(cl.reachable()):
        t = cl.term(b)
        if t["k"] == "switch" and t["ty"] == "u16":
            out = {}
            for v, tgt in t["targets"]:
                for s in cl.blocks[tgt]["stmts"]:
                    rv = s.get("rv")
                    if rv and rv["k"] == "agg" and rv.get("adt") == BK:
                        out[dm[v]] = rv["variant"]
            return out, cl
    return None, cl


IC = "ide::ty::infer::InferCtx::"


def arms(F):
    """BinaryOpKind variant -> (types unified via unify_var_ty, operands unified?, result)"""
    fn0 = F.fn("ide::ty::infer::InferCtx::infer_expr_inner")
    dm = F.discr_map(BK)
    sw = None
    fn = fn0
    # the match on the operator kind: in infer_expr_inner or in a method of InferCtx it hands the Binary arm to
    for p_ in F.with_helpers(fn0.path, depth=1):
        if not p_.startswith(IC) or "{closure" in p_:
            continue
        g = F.fns[p_]
        dg = FL.Defs(g)
        for b in sorted(g.reachable()):
            t = g.term(b)
            if t["k"] == "switch":
                l = op_local(t["op"])
                o = dg.origin(l) if l is not None else {}
                if o.get("k") == "rv" and o["rv"]["k"] == "discr" and o["rv"]["of"] == BK:
                    sw = (b, t)
                    fn = g
        if sw is not None:
            break
    d = FL.Defs(fn)
    if sw is None:
        return None, fn0
    b0, t = sw
    tgts = {dm[v]: tgt for v, tgt in t["targets"]}
    listed = set(tgts)
    for v in dm.values():
        tgts.setdefault(v, t["otherwise"])
    reach = {}
    for tgt in set(tgts.values()):
        seen, st = {tgt}, [tgt]
        while st:
            x = st.pop()
            for y in fn.succ(x):
                if y not in seen:
                    seen.add(y)
                    st.append(y)
        reach[tgt] = seen
    common = set.intersection(*reach.values()) if len(reach) > 1 else set()
    out = {}

    def defs_in(region):
        ls = {}
        for bb in region:
            for s_ in fn.blocks[bb]["stmts"]:
                if s_["k"] == "assign" and not s_["place"]["p"]:
                    ls.setdefault(s_["place"]["l"], []).append(("assign", bb, s_))
            tt = fn.term(bb)
            if tt["k"] == "call" and not tt["dest"]["p"]:
                ls.setdefault(tt["dest"]["l"], []).append(("call", bb, tt))
        return ls
    per_arm = {tgt: defs_in(reach[tgt] - common) for tgt in set(tgts.values())}
    # the match's result local: assigned in every arm
    result_locals = set.intersection(*[set(x) for x in per_arm.values()]) if per_arm else set()
    for v, tgt in tgts.items():
        region = reach[tgt] - common
        S = Summ(F)
        eff = S.region(fn, region, {}, 0)
        results = set()
        dd = S.defs(fn)
        for rl in result_locals:
            for kind_, bb, x in per_arm[tgt].get(rl, []):
                if kind_ == "assign":
                    if x["rv"]["k"] == "use":
                        results.add(S.sym(fn, dd, x["rv"]["op"], {}, 0))
                    else:
                        results.add(("?",))
                else:
                    results.add(S.sym_o(fn, dd, {"k": "call", "t": x, "bb": bb}, {}, 0))
        exprs = {x for pair in eff["unify"] for x in pair if x[0] == "expr"} | {x for x, _ in eff["unify_ty"] if x[0] == "expr"}
        tys = [(ty, "operand" if x[0] == "expr" else "fresh" if x[0] == "fresh" else "?") for x, ty in sorted(eff["unify_ty"], key=repr)]
        operands = any(a[0] == "expr" and b_[0] == "expr" and a != b_ for a, b_ in eff["unify"])
        out[v] = {"tys": tys, "operands_unified": operands,
                  "results": sorted({"operand" if r[0] == "expr" else "fresh" for r in results}), "explicit": v in listed,
                  "fresh_bool": any(x[0] == "fresh" and ty == "Bool" and x in results for x, ty in eff["unify_ty"])}
    return out, fn


class Summ:
    """Symbolic effect of MIR regions on type variables, with InferCtx helper methods inlined (depth <= 3)."""

    def __init__(self, F):
        self.F = F
        self._defs = {}
        self.memo = {}

    def defs(self, fn):
        d = self._defs.get(fn.path)
        if d is None:
            d = self._defs[fn.path] = FL.Defs(fn)
        return d

    def sym(self, fn, d, op, bind, depth):
        return self.sym_o(fn, d, d.origin_op(op), bind, depth)

    def sym_o(self, fn, d, o, bind, depth):
        k = o.get("k")
        if k == "arg":
            return bind.get(o["n"], ("?",))
        if k == "agg" and (o["rv"].get("adt") or "").endswith("::Ty"):
            return ("ty", o["rv"]["variant"])
        if k == "call":
            c = callee(o["t"]) or ""
            if c.endswith("::infer_expr") or c.endswith("::infer_expr_inner"):
                return ("expr", fn.path, o["bb"])
            if c.endswith("::new_ty_var"):
                return ("fresh", fn.path, o["bb"], tuple(sorted(bind.items(), key=repr)))
            if c.startswith(IC) and depth < 3:
                sub = self.inline(fn, d, o["t"], bind, depth)
                if sub and len(sub["ret"]) == 1:
                    return next(iter(sub["ret"]))
        return ("?",)

    def inline(self, fn, d, t, bind, depth):
        c = callee(t)
        g = self.F.fns.get(c)
        if g is None or not g.blocks:
            return None
        b2 = {i + 1: self.sym(fn, d, a, bind, depth) for i, a in enumerate(t["args"])}
        key = (c, tuple(sorted(b2.items(), key=repr)))
        if key in self.memo:
            return self.memo[key]
        self.memo[key] = None
        eff = self.region(g, set(g.reachable()), b2, depth + 1)
        dg = self.defs(g)
        ret = set()
        for l_, ds in dg.defs.items():
            pass
        o = dg.origin(0)
        cands = [o] if o.get("k") != "multi" else []
        if o.get("k") == "multi":
            for dd in o["defs"]:
                if dd[2] == "call":
                    cands.append({"k": "call", "t": dd[3], "bb": dd[0]})
                else:
                    cands.append(dg.origin_rv(dd[3]["rv"], 0, dd[0], 0, ()))
        for oc in cands:
            ret.add(self.sym_o(g, dg, oc, b2, depth + 1))
        eff = dict(eff, ret=ret)
        self.memo[key] = eff
        return eff

    def region(self, fn, region, bind, depth):
        d = self.defs(fn)
        eff = {"unify_ty": set(), "unify": set()}
        for bb in sorted(region):
            tt = fn.term(bb)
            if tt["k"] != "call":
                continue
            c = callee(tt) or ""
            if c == IC + "unify_var_ty":
                ty = self.sym(fn, d, tt["args"][2], bind, depth)
                if ty[0] == "ty":
                    eff["unify_ty"].add((self.sym(fn, d, tt["args"][1], bind, depth), ty[1]))
            elif c == IC + "unify_var":
                eff["unify"].add((self.sym(fn, d, tt["args"][1], bind, depth), self.sym(fn, d, tt["args"][2], bind, depth)))
            elif c.startswith(IC) and not c.endswith(("::infer_expr", "::infer_expr_inner", "::new_ty_var")) and depth < 3:
                sub = self.inline(fn, d, tt, bind, depth)
                if sub:
                    eff["unify_ty"] |= sub["unify_ty"]
                    eff["unify"] |= sub["unify"]
        return eff


REORDERING = ("swap_remove", "sort", "sort_by", "sort_by_key", "sort_by_cached_key", "sort_unstable", "sort_unstable_by", "sort_unstable_by_key", "reverse",
              "rotate_left", "rotate_right", "swap", "dedup", "dedup_by", "dedup_by_key", "select_nth_unstable", "swap_remove_index", "swap_remove_full")


def positional_lists_keep_their_order(F, res, rule="Y21"):
    """Y21: fields and parameters are matched by POSITION once the labelled ones are taken out. `infer_pattern` (constructor patterns)
    and `unify` (labelled function types) both work on a copy of the declared list: a sub-pattern / argument with a label removes
    the entry it names, the remaining ones are then paired with the remaining entries by their index. That only works while the
    removal keeps the order of what is left - `Vec::remove`, not `swap_remove` (which moves the last entry into the hole: in
    `Entry(id, name, score)` matched as `Entry(score: s, a, b)` the binders get each other's types), and nothing sorts, reverses
    or dedups the list. The two sites must agree (the source says so in a comment); both are checked with one rule."""
    units = [u for u in ("ide::ty::infer::InferCtx::infer_pattern", "ide::ty::infer::InferCtx::unify") if u in F.fns]
    if len(units) < 2:
        res.anchor_missing(rule, "ide::ty::infer::InferCtx::infer_pattern / unify")
        return
    removes, bad = 0, []
    for u in units:
        for q in F.with_helpers(u, depth=1, stop=units):
            g = F.fns.get(q)
            if g is None or not g.blocks or not q.startswith(("ide::ty::", "<ide::ty::")):
                continue
            for _b, t in g.calls():
                c = FL.short(callee(t) or callee_def(t) or "")
                last = c.rsplit("::", 1)[-1]
                if last == "remove" and "Vec" in c:
                    removes += 1
                if last in REORDERING and ("Vec" in c or "[T]" in c or "slice" in c or "IndexMap" in c or "VecDeque" in c):
                    bad.append("%s in %s (line %s)" % (c, FL.short(q), t["ln"]))
    res.floor("order-preserving removals in the label reordering of infer_pattern and unify", removes, 2)
    res.ob(rule, "label-reordering/keeps-order", "what infer_pattern and unify leave of the declared fields / parameters after taking the labelled ones out is "
           "still in declaration order: nothing in them reorders a list (swap_remove, sort, reverse, dedup, ..)", not bad, where=F.fn(units[0]).loc(),
           how="Vec::remove x%d, no reordering operation" % removes if not bad else "; ".join(bad))


def one_memo_per_instantiation(F, res, rule="Y22"):
    """Y22: every reference to a polymorphic function instantiates its type afresh (`id(1)` and `id("s")` in one body). The recursive
    instantiator answers a part it has seen from a map keyed by the part's address (C10/Q18) - within ONE instantiation. The frozen
    type of a callee comes from a memoised query, so every reference in a body presents the same addresses: a map that survives from
    one instantiation to the next (a field of the context, taken with mem::take and put back) hands the second reference the
    variables of the first, and `let b = id("s")` is an Int. The map the non-recursive entry hands to the recursive instantiator is
    made right there by a constructor (`HashMap::new()` / `default()`), in the same call."""
    cg = F.callgraph()
    n, bad = 0, []
    for p_, f in sorted(F.fns.items()):
        if not p_.startswith("ide::ty::infer::InferCtx::") or not f.blocks or "{closure" in p_ or p_ not in cg.get(p_, ()):
            continue
        # a recursive method of the context that takes a map keyed by addresses: (usize, usize) / *const keys
        maps = [i for i in range(1, f.d["arg_count"] + 1) if "HashMap<" in str(f.local_ty(i) or "") and ("usize" in str(f.local_ty(i)) or "*const" in str(f.local_ty(i)))]
        if not maps:
            continue
        for g_, b, t in F.callers_of(lambda c, p_=p_: c == p_):
            if g_.path == p_ or g_.path.startswith(p_ + "::{closure"):
                continue                      # the recursive calls hand the map on
            n += 1
            dg = FL.Defs(g_)
            for i in maps:
                o = dg.origin_op(t["args"][i - 1])
                base = o
                if base.get("k") == "rv" and base["rv"]["k"] == "ref":
                    base = dg.origin_place(base["rv"]["place"])
                while base.get("k") == "field":
                    base = base["base"]
                ctor = base.get("k") == "call" and FL.short(callee(base["t"]) or callee_def(base["t"]) or "").rsplit("::", 1)[-1] in ("new", "default", "with_capacity", "with_hasher")
                if not ctor:
                    src = FL.short(callee(base["t"]) or callee_def(base["t"]) or "") if base.get("k") == "call" else base.get("k")
                    bad.append("%s line %s: the map handed to %s comes from %s, not from a constructor in this call" % (FL.short(g_.path), t["ln"], FL.short(p_), src))
    res.ob(rule, "instantiate/one-memo-per-instantiation", "the memo of parts already instantiated lives for one instantiation: the entry that starts the "
           "recursive instantiator builds the map itself", n >= 1 and not bad, where="crates/ide/src/ty/infer.rs",
           how="%d entry call(s), each with a freshly constructed map" % n if n and not bad else ("; ".join(bad) or "no memoised recursive instantiator found"))


def run(F, res, tier):
    from rules import c04 as _c04g
    _c04g.operands_group_as_in_gleam(F, res, rule="Y23")   # the tree the inferencer types groups operators as Gleam does
    one_memo_per_instantiation(F, res)
    positional_lists_keep_their_order(F, res)
    # Y2: the call graph behind the inference groups resolves callee names like the inferencer does
    from rules import c05
    c05.resolver_provenance(F, res, only="ide::def::scope::dependency_order_query", rule="Y2")
    # Y3: freezing a type variable puts the table entry back on every path (else later collectors of the same
    # inference group see a wiped variable and merge distinct type variables)
    cu = F.fn("ide::ty::infer::Collector::collect_uncached")
    dcu = FL.Defs(cu)
    reps = []
    for b, t in cu.calls():
        if FL.short(callee(t) or callee_def(t)) == "mem::replace":
            o = dcu.origin_op(t["args"][0])
            if o.get("k") == "call" and (callee(o["t"]) or "").endswith("UnionFind::<T>::get_mut"):
                reps.append(b)
    rets = cu.return_blocks()
    take = [b for b in reps if all(cu.dominates(b, r) for r in rets)]
    put = [b for b in reps if b not in take[:1] and all(cu.dominates(b, r) for r in rets)]
    res.ob("Y3", "collector-restores-entry", "Collector::collect_uncached takes the variable's entry out of the table and puts it back on every path to return",
           len(reps) >= 2 and bool(take) and bool(put), where=cu.loc(), how="mem::replace(table.get_mut(i), ..) sites %d, dominating every return: %d" % (len(reps), len(take) + len(put)))
    resolver_swaps(F, res)
    pure = teval.Pure(F)
    kinds = F.variants(SK)
    infix = [k for k in kinds if pure.call(SK + "::infix_bp", [("e", SK, k)])[2] == "Some"]
    table, cl = op_table(F)
    if table is None:
        res.anchor_missing("Y1", "match on the token kind in BinaryOp::op_details")
        return
    arm, fn = arms(F)
    if arm is None:
        res.anchor_missing("Y1", "match on BinaryOpKind in infer_expr_inner")
        return
    res.analysed["operator_table"] = table
    res.analysed["typing_arms"] = {k: {"unified_with": v["tys"], "operands_unified": v["operands_unified"]} for k, v in sorted(arm.items())}
    res.floor("binary operators the parser accepts", len(infix), 23)
    for k in sorted(infix):
        if k == "VBAR_GT":
            continue
        want = ORACLE.get(k)
        bk = table.get(k)
        if bk is None:
            res.ob("Y1", "op/" + k, "operator %s has an operator kind (else expressions using it stay untyped)" % k, False, where=cl.loc(),
                   how="BinaryOp::op_details has no arm for %s" % k)
            continue
        a = arm.get(bk)
        if want is None or a is None:
            res.ob("Y1", "op/" + k, "operator %s has a typing arm" % k, a is not None and want is not None, where=fn.loc(), how="kind %s" % bk)
            continue
        opnd, result = want
        tys = a["tys"]
        ok_operands = a["operands_unified"]
        ok_opnd = True if opnd is None else (opnd, "operand") in tys
        if result == "same":
            ok_res = "operand" in a["results"] and not any(t_ == "Bool" and w == "fresh" for t_, w in tys) or opnd == "Bool" and "operand" in a["results"]
        else:
            ok_res = (result, "fresh") in tys and "fresh" in a["results"]
        res.ob("Y1", "op/" + k, "operator %s is typed as Gleam prescribes: operands %s and of one type, result %s"
               % (k, opnd or "of any one type", opnd if result == "same" else result),
               ok_operands and ok_opnd and ok_res, where=fn.loc(),
               how="kind %s; unify_var_ty calls %s; operands unified with each other: %s; arm yields %s" % (bk, tys, ok_operands, a["results"]))
    pattern_types_pinned(F, res)
    groups_scan_every_body(F, res)
    unknowns_unify_by_value(F, res)
    group_members_share_one_counter(F, res)
    naming_state_is_per_function(F, res)
    declared_types_are_read_in_their_own_module(F, res)
    scratch_stacks_are_balanced(F, res)
    every_child_is_inferred(F, res)
    literal_tables(F, res)
    resolutions_are_not_memoised_by_name(F, res)
    unknowns_are_numbered_by_the_counter(F, res)
    type_walkers_are_complete(F, res)
    # the inferencer resolves a name through the scope the scope walk recorded for the expression: a `use` whose call is visited in the
    # callback's scope types `use x <- try(x)` with the new binder; the groups are inferred member by member in declaration order
    from rules import c05 as _c05, c10 as _c10
    _c05.let_use_ordering(F, res, rule="Y19")
    _c10.declared_everywhere(F, res, rule="Y20")
    from rules import c05 as _c05
    _c05.lowering_takes_every_child_of_a_list(F, res, rule="Y17")
    _c05.alternatives_bind_one_name_once(F, res, rule="Y17")
    from rules import c10 as _c10
    _c10.inference_is_memoised(F, res, rule="Y13")


def resolver_swaps(F, res, rule="Y4"):
    """Y4: the inferencer's name resolver is swapped (to the module that declares a function / alias / variant) only by a
    save-and-restore: every write of InferCtx.resolver with a new value goes through mem::replace, and on every path from
    there to a return the saved value is written back. (An unrestored swap resolves the rest of a signature in the wrong
    module.)"""
    from lib import effects as EF
    IC_ = "ide::ty::infer::InferCtx"
    ws = EF.writers(F, IC_, "resolver", "ide::")
    by_fn = {}
    for f, e in ws:
        if e["how"] == "mutborrow" and FL.short(e.get("callee") or "") != "mem::replace":
            continue        # the &mut borrow that feeds the mem::replace call itself
        by_fn.setdefault(f.path, []).append(e)
    n = 0
    for path, es in sorted(by_fn.items()):
        f = F.fns[path]
        d = FL.Defs(f)
        rets = f.return_blocks()
        sites = []      # (bb, kind, saved result local | None, value origin)
        for e in es:
            bb = e["bb"]
            if e["how"] == "assign":
                o = d.origin_rv(e["rv"], None, bb, 0, ())
                sites.append((bb, "assign", None, o, e["ln"]))
            else:
                t = f.term(bb)
                o = d.origin_op(t["args"][1])
                sites.append((bb, "replace", t["dest"]["l"] if not t["dest"]["p"] else None, o, e["ln"]))

        # saves: calls that read the current resolver out into a value (mem::replace / mem::take on the field, or a clone of it)
        saves = {s_[0] for s_ in sites if s_[1] == "replace"}
        for b2, t2 in f.calls():
            c2 = FL.short(callee(t2) or callee_def(t2))
            if c2.endswith("Clone::clone") or c2 == "mem::take":
                a = d.origin_op(t2["args"][0])
                names = []
                while a.get("k") == "field":
                    names += [e_.get("n") for e_ in a.get("proj", []) if isinstance(e_, dict)]
                    a = a["base"]
                if "resolver" in names:
                    saves.add(b2)

        def saved_by(o):
            """bb of the save whose result this value is, if any"""
            base = o
            while base.get("k") == "field":
                base = base["base"]
            if base.get("k") == "call" and base["bb"] in saves:
                return base["bb"]
            return None
        restores = {}
        for bb, kind, dest, o, ln in sites:
            sb = saved_by(o)
            if sb is not None:
                restores.setdefault(sb, []).append(bb)
        swapins = [s_ for s_ in sites if saved_by(s_[3]) is None]
        for bb, kind, dest, o, ln in swapins:
            n += 1
            ordn = [s_[0] for s_ in swapins].index(bb)
            if kind == "assign":
                mine = [sv for sv in saves if f.dominates(sv, bb) and sv != bb]
            else:
                mine = [bb]
            back = [r for sv in mine for r in restores.get(sv, [])]
            leak = f.can_reach(bb, rets, avoid=back) if back else True
            res.ob(rule, "%s/swap/%d" % (path.rsplit("::", 1)[-1], ordn),
                   "the resolver swapped in here replaces a saved one, and the saved value is written back to InferCtx.resolver on every path to return",
                   bool(mine) and bool(back) and not leak, where=f.loc(ln),
                   how=("the previous resolver is not saved" if not mine else
                        "restoring writes: %d; a return is reachable without them: %s" % (len(back), leak)))
    res.floor("resolver swap-in sites in the inferencer", n, 5)


def pattern_types_pinned(F, res, rule="Y5"):
    """Y5: infer_pattern returns the type variable of the pattern (`pat_var`) and unifies it with what the context expects. Every
    pattern form that says something about the matched value (all but a plain variable, `_` and a missing pattern) must
    constrain that variable in its arm - by unifying it, or by handing it to a recursive call. An arm that only types its
    sub-patterns leaves the subject unconstrained (`case s { "a" <> rest -> .. }` did not make `s` a String)."""
    from rules.c05 import regions
    f = F.fn("ide::ty::infer::InferCtx::infer_pattern")
    d = FL.Defs(f)
    PAT = "ide::def::module::Pattern"
    dm = F.discr_map(PAT)
    # pat_var = what is returned
    ret = d.origin(0)
    if ret.get("k") == "multi":
        # several returns of the same local (an early `return pat_var` in one arm)
        srcs = {op_local(x[3]["rv"].get("op", {})) for x in ret["defs"] if x[2] == "assign" and x[3]["rv"]["k"] == "use"}
        ret = d.origin(srcs.pop()) if len(srcs) == 1 and None not in srcs else ret
    pv_bb = ret.get("bb") if ret.get("k") == "call" else None
    sw = None
    for b in sorted(f.reachable()):
        t = f.term(b)
        if t["k"] != "switch":
            continue
        l = op_local(t["op"])
        o = d.origin(l) if l is not None else {}
        if o.get("k") == "rv" and o["rv"]["k"] == "discr" and o["rv"]["of"] == PAT:
            sw = (b, t)
            break
    if sw is None or pv_bb is None:
        res.anchor_missing(rule, "match on Pattern in infer_pattern / the returned type variable")
        return
    b0, t = sw
    tg, reach = regions(f, t, avoid=b0)
    n = 0
    for v, x in sorted(tg.items()):
        name = dm.get(v, str(v))
        # blocks only this arm reaches (the join after the match belongs to every arm that falls through)
        others = set()
        for y, r in reach.items():
            if y != x:
                others |= r
        arm = reach[x] - others
        calls = [(b, tt) for b, tt in f.calls() if b in arm and (callee(tt) or "").startswith("ide::ty::infer::InferCtx::")]
        if not calls:
            continue      # Variable, Hole, Missing: nothing to say about the value
        n += 1
        pins = []
        for b, tt in calls:
            for a in tt["args"][1:]:
                o = d.origin_op(a)
                # the variable itself, or the expected type it is unified with after the match
                if o.get("k") == "call" and o.get("bb") == pv_bb or o.get("k") == "arg" and o.get("n") == 3:
                    pins.append(FL.short(callee(tt)))
        res.ob(rule, "pattern/%s" % name, "the arm of infer_pattern for Pattern::%s constrains the pattern's own type variable (the one unified "
               "with the subject)" % name, bool(pins), where=f.loc(f.term(x).get("ln") if f.term(x) else None),
               how="constrained through %s" % sorted(set(pins)) if pins else "the arm types its parts only (%s); the returned variable stays free"
               % sorted({FL.short(callee(tt)) for _, tt in calls}))
    res.floor("pattern forms that constrain the matched value", n, 8)


def groups_scan_every_body(F, res, rule="Y6"):
    """Y6: the inference groups are the strongly connected components of the call graph dependency_order_query builds. The
    inferencer relies on the graph being complete: a function it meets that is not in the group being inferred is asked for
    its finished type, which is only well-founded when every reference between functions of the module is an edge. So each
    iteration of the loop over the module's functions walks the whole body: no path round that loop avoids the traversal
    that pushes the edges (a body skipped because it `cannot take part in a recursion` loses the edge of `fn next() { tick }`;
    the two functions are inferred as separate groups that ask for each other: a query cycle)."""
    f = F.fn("ide::def::scope::dependency_order_query")
    d = FL.Defs(f)
    pushers = set()
    for c in F.with_closures(f.path):
        if c != f.path and any(FL.short(callee(t) or callee_def(t) or "").endswith("Vec::push") for _b, t in F.fns[c].calls()):
            pushers.add(c)
    scans = []
    for b, t in f.calls():
        c = FL.short(callee(t) or callee_def(t) or "")
        if c.rsplit("::", 1)[-1] in ("for_each", "fold", "try_for_each", "try_fold"):
            for a in t["args"][1:]:
                o = d.origin_op(a)
                if o.get("k") == "agg" and o["rv"].get("closure") in pushers:
                    scans.append(b)
    # the traversal written as a loop: an inner loop (over Body::exprs) that contains a push
    pushes = [b for b, t in f.calls() if FL.short(callee(t) or callee_def(t) or "").endswith("Vec::push")]
    loops = {}
    for tl, hd in f.back_edges():
        loops.setdefault(hd, set()).update(f.natural_loop(tl, hd))
    outer = [hd for hd, body in loops.items() if not any(hd in b2 and hd != h2 for h2, b2 in loops.items())]
    for hd, body in loops.items():
        if hd in outer:
            continue
        nx = f.term(hd)
        dep = FL.depends(F, f, d, nx["args"][0]) if nx.get("k") == "call" and nx.get("args") else {"calls": []}
        if any(x.endswith("Body::exprs") for x in dep["calls"]) and any(p in body for p in pushes):
            scans.append(hd)
    skipped = FL.every_iteration_passes(f, scans) if scans else [("none", "none")]
    res.ob(rule, "dependency_order/every-body-scanned", "every iteration of the loop over the module's functions traverses the body and records its "
           "references (the groups are complete: no function outside a group refers back into it)", bool(scans) and not skipped, where=f.loc(),
           how="traversals that push edges: %d; ways round the loop without one: %d" % (len(scans), len(skipped)))


def unknowns_unify_by_value(F, res, rule="Y7"):
    """Y7: a type variable without a solution is Ty::Unknown{idx}; the idx is what names it when types are displayed and what
    make_type uses to tell generic parameters apart. unify(Unknown a, Unknown b) must pick the surviving idx from the *values*
    of both (the smaller one), not from the argument position: make_ty_from_typeref seeds a generic with its table index, which
    collides with the idx of a later variable and is only brought back to the variable's own idx because the smaller one wins.
    On the path of unify where both arguments are Unknown, the code reads the payload of both before the arms join."""
    f = F.fn("ide::ty::infer::InferCtx::unify")
    d = FL.Defs(f)
    tup = None
    for b, i, s in f.stmts():
        rv = s.get("rv") or {}
        if rv.get("k") == "agg" and rv.get("agg") == "tuple" and len(rv.get("ops", [])) == 2:
            o = [d.origin_op(x) for x in rv["ops"]]
            if [x.get("n") for x in o if x.get("k") == "arg"] == [2, 3]:
                tup = s["place"]["l"]
    if tup is None:
        res.anchor_missing(rule, "the (lhs, rhs) tuple matched in InferCtx::unify")
        return
    names = FL.enum_names(F, "ide::ty::infer::Ty") or {}
    unk = [k for k, v in names.items() if v == "Unknown"]
    if not unk:
        res.anchor_missing(rule, "variant Unknown of ide::ty::infer::Ty")
        return
    unk = unk[0]
    # follow the switches on the discriminants of tup.0 / tup.1 along `Unknown`
    seen_sides, b, visited = set(), 0, []
    for _ in range(200):
        visited.append(b)
        t = f.term(b)
        if t["k"] == "switch":
            o = d.origin_op(t["op"])
            side = None
            if o.get("k") == "rv" and o["rv"].get("k") == "discr":
                pl = o["rv"]["place"]
                if pl["l"] == tup and pl["p"] and isinstance(pl["p"][0], dict) and pl["p"][0].get("f") in (0, 1) and len(pl["p"]) == 1:
                    side = pl["p"][0]["f"]
            if side is None:
                break
            seen_sides.add(side)
            hit = [tb for v, tb in t["targets"] if v == unk]
            b = hit[0] if hit else t["otherwise"]
            continue
        if seen_sides == {0, 1}:
            break
        succ = f.succ(b)
        if len(succ) != 1:
            break
        b = succ[0]
    reads = set()
    arm = b
    # the arm: from here until a block that other arms reach too
    st, arm_blocks = [arm], set()
    while st:
        x = st.pop()
        if x in arm_blocks or (x != arm and any(p not in arm_blocks for p in f.pred(x))):
            continue
        arm_blocks.add(x)
        st.extend(f.succ(x))

    def scan(o):
        pl = (o.get("mv") or o.get("cp")) if isinstance(o, dict) else None
        if pl and pl["l"] == tup and pl["p"] and isinstance(pl["p"][0], dict) and pl["p"][0].get("f") in (0, 1):
            # reading the payload (a field below the variant), not just moving the whole side
            if len(pl["p"]) > 1:
                reads.add(pl["p"][0]["f"])
    for x in arm_blocks:
        for s in f.blocks[x]["stmts"]:
            rv = s.get("rv") or {}
            for key in ("op", "a", "b"):
                if isinstance(rv.get(key), dict):
                    scan(rv[key])
            if "place" in rv:
                scan({"cp": rv["place"]})
            for o in rv.get("ops", []) or []:
                scan(o)
        t = f.term(x)
        for a in t.get("args", []) or []:
            scan(a)
    ok = seen_sides == {0, 1} and reads == {0, 1}
    res.ob(rule, "unify/unknowns-by-value", "unify of two unsolved variables chooses the surviving idx from the idx of both (the smaller wins), not by "
           "argument position", ok, where=f.loc(), how="both discriminants tested: %s; payloads read in the arm for (Unknown, Unknown): %s" %
           (sorted(seen_sides), sorted(reads)))


def group_members_share_one_counter(F, res, rule="Y8"):
    """Y8: the members of a recursion group are inferred over one union-find table; an unsolved variable is named by its idx.
    The idx counter therefore has to run on from one member to the next: the `idx` an InferCtx is built with inside the loop
    of infer_function_group_query is loop-carried (one of its definitions reads the `idx` field of the previous member's
    context). With a loop-invariant start the n-th variable of every member has the same idx and two independent type
    variables are shown (and re-instantiated by callers) as one: `fn f(x) { #(x, g) }` got fn(a) -> #(a, fn(a) -> a)."""
    f = F.fn("ide::ty::infer::infer_function_group_query")
    d = FL.Defs(f)
    loops = [f.natural_loop(tl, hd) for tl, hd in f.back_edges()]
    n, ok = 0, True
    why = []
    for b, i, s in f.stmts():
        rv = s.get("rv") or {}
        if rv.get("k") != "agg" or not (rv.get("adt") or "").endswith("InferCtx"):
            continue
        body = [L for L in loops if b in L]
        if not body:
            continue
        n += 1
        op = rv["ops"][rv["fields"].index("idx")]
        # follow copies to the counter local; it must have a definition inside the loop that reads InferCtx.idx
        seen, st, carried = set(), [op], False
        while st:
            o = st.pop()
            pl = (o.get("cp") or o.get("mv")) if isinstance(o, dict) else None
            if not pl or pl["l"] in seen:
                continue
            seen.add(pl["l"])
            for dd in d.defs.get(pl["l"], []):
                if dd[2] != "assign":
                    continue
                rv2 = dd[3]["rv"]
                src = rv2.get("op") if rv2.get("k") == "use" else None
                spl = (src.get("cp") or src.get("mv")) if isinstance(src, dict) else None
                if spl and any(isinstance(e, dict) and e.get("n") == "idx" and (e.get("adt") or "").endswith("InferCtx") for e in spl.get("p", [])) \
                        and any(dd[0] in L for L in body):
                    carried = True
                if isinstance(src, dict):
                    st.append(src)
        if not carried:
            ok = False
            why.append("the context built at line %s starts from a counter that no iteration updates from the previous member's idx" % s.get("ln"))
    res.ob(rule, "group/one-idx-counter", "the idx counter of type variables runs on from one member of a recursion group to the next",
           n > 0 and ok, where=f.loc(), how="; ".join(why) or "%d context(s) built in the loop, counter carried over" % n)


def naming_state_is_per_function(F, res, rule="Y9"):
    """Y9: the displayed type of a function names its unsolved variables a, b, c .. in order of first appearance *in that
    function's own types*. The Collector that freezes the types carries the naming state (letters handed out, the counter)
    and a memo of already frozen types, which contains letters. Whatever of that state Collector::collect writes must be
    fresh for every function of a group: the Collector is built inside the per-function loop of finish_infer, or every
    iteration passes a Collector method that re-initialises *all* of those fields. A memo that survives from the previous
    member hands out that member's letters (`#(a, List(a))` for `#(a, List(b))`), and which member is "previous" follows a
    HashMap's order."""
    from lib import effects as EF
    COL = "ide::ty::infer::Collector"
    fi = F.fn("ide::ty::infer::finish_infer")
    methods = [p for p in F.fns if p.startswith(COL + "::") and "{closure" not in p and F.fns[p].blocks]
    reach = set(F.reachable_from([COL + "::collect"])) & set(methods) | {COL + "::collect"}
    state = set()
    for p in sorted(reach):
        for q in F.with_closures(p):
            for e in EF.field_effects(F.fns[q], COL):
                if e["how"] in ("assign", "mutborrow") and e["field"] != "table":
                    state.add(e["field"])
    collects = [(b, t) for b, t in fi.calls() if (callee(t) or "") == COL + "::collect"]
    # a table filled by `iter().for_each(|..| .. collect(..))`: the closure is created in the block that counts
    for b, i, s_ in fi.stmts():
        cp = (s_.get("rv") or {}).get("closure")
        if cp and any((callee(t2) or "") == COL + "::collect" for q in F.with_closures(cp) for _b2, t2 in F.fns[q].calls()):
            collects.append((b, {"ln": s_["ln"]}))
    news = [(b, t) for b, t in fi.calls() if (callee(t) or "") == COL + "::new"]
    res.floor("Collector::collect calls in finish_infer", len(collects), 2)
    # the per-function loop: the outermost loop that contains every collect call
    loops = []
    for tl, hd in fi.back_edges():
        lp = fi.natural_loop(tl, hd)
        if collects and all(b in lp for b, t in collects):
            loops.append((len(lp), hd, lp))
    ok, how = False, "no loop around the collect calls"
    if loops:
        _n, hd, lp = max(loops)
        fresh = [b for b, t in news if b in lp]
        if fresh:
            ok = not FL.every_iteration_passes(fi, fresh) or all(w[0] != hd for w in FL.every_iteration_passes(fi, fresh))
            how = "Collector::new inside the per-function loop"
        else:
            # a reset method called on every iteration must overwrite all of the state
            resets = {}
            for b, t in fi.calls():
                c = callee(t) or ""
                if b in lp and c.startswith(COL + "::") and c not in (COL + "::collect",):
                    wr = set()
                    for q in F.with_closures(c):
                        for e in EF.field_effects(F.fns[q], COL):
                            if e["how"] in ("assign", "mutborrow"):
                                wr.add(e["field"])
                    resets[b] = (FL.short(c), wr)
            covering = [b for b, (c, wr) in resets.items() if state <= wr]
            ways = [w for w in FL.every_iteration_passes(fi, covering) if w[0] == hd] if covering else [(hd, None)]
            ok = bool(covering) and not ways
            how = "Collector built outside the loop; per-iteration Collector calls %s; state written by collect: %s" % (
                sorted((c, sorted(wr)) for c, wr in resets.values()), sorted(state))
    res.ob(rule, "finish_infer/fresh-naming-per-function", "every function of a group is frozen with naming state and memo of its own (all fields "
           "Collector::collect writes: %s)" % sorted(state), ok and bool(state), where=fi.loc(), how=how)


def declared_types_are_read_in_their_own_module(F, res, rule="Y10"):
    """Y10: a declaration spells its types as its own module sees them. Wherever the inferencer instantiates the declared type of a
    *field* (hir::Field::ty) - reading `value.field`, applying a constructor - the InferCtx resolver has been swapped to the
    top-level resolver of the module that declares the record: the make_ty_from_typeref call is dominated by a
    mem::replace(&mut self.resolver, ..) whose new value depends on lookup_intern_adt (the record's location). Otherwise a type of
    the same name in the reading module is taken (`n.inner.` offered the fields of the local `Pt`), or the field has no type at all
    and everything behind it - `o.inner.name`, its references, its completions - is lost. (The restore is Y4's business.)"""
    IC = "ide::ty::infer::InferCtx::"
    n, bad = 0, []
    for p_, f in sorted(F.fns.items()):
        if not p_.startswith(IC) or not f.blocks:
            continue
        base = F.fns.get(p_.split("::{closure")[0], f)
        d = FL.Defs(f)
        for b, t in f.calls():
            if (callee(t) or "") != IC + "make_ty_from_typeref" or len(t["args"]) < 2:
                continue
            dep = FL.depends(F, f, d, t["args"][1], use_bb=b)
            if not any(c.endswith("hir::Field::ty") or c.endswith("Field::ty") for c in dep["calls"]):
                continue
            n += 1
            # the swap: in this unit, or - for a closure - in the function it belongs to, before the closure is created
            ok = False
            units = [(f, d, [b])]
            if f.kind == "Closure":
                par = F.fns.get(f.d.get("direct_parent"))
                if par is not None:
                    cl = [b2 for b2, i2, s2 in par.stmts() if (s2.get("rv") or {}).get("closure") == f.path]
                    units.append((par, FL.Defs(par), cl))
            for u, du, targets in units:
                for b2, t2 in u.calls():
                    if FL.short(callee(t2) or callee_def(t2) or "").endswith("mem::replace") and \
                            "resolver" in {str(x) for x in FL.fields_feeding(F, u, du, t2["args"][0], "InferCtx")}:
                        dv = FL.depends(F, u, du, t2["args"][1], use_bb=b2)
                        if any(c.endswith("lookup_intern_adt") for c in dv["calls"]) and any(c.endswith("resolver_for_toplevel") for c in dv["calls"]) \
                                and all(u.dominates(b2, x) and b2 != x for x in targets):
                            ok = True
            if not ok:
                bad.append("%s line %d" % (FL.short(p_), t["ln"]))
    res.ob(rule, "field-types/declaring-module", "the declared type of a field is instantiated with the resolver of the module that declares the record",
           n >= 2 and not bad, where="crates/ide/src/ty/infer.rs", how="instantiations of a field's declared type: %d; not under a swap to the record's module: %s" % (n, bad))


def scratch_stacks_are_balanced(F, res, rule="Y11"):
    """Y11: the inference context owns scratch collections next to its results (the results are body_ctx and the shared table;
    `alias_stack` = the aliases being expanded right now is scratch). An entry of such a collection says "this is in progress":
    it is pushed before a nested call and must be gone when the function returns, or the rest of the function being inferred
    sees the thing as still in progress (a second mention of an alias is taken for a recursive alias and becomes a fresh
    unknown). Every push into an owned collection field of InferCtx is followed by a pop/truncate/clear of the same field on
    every path to a return."""
    from lib import effects as EF
    IC_ = "ide::ty::infer::InferCtx"
    a = F.adt(IC_)
    scratch = sorted(f["name"] for v in a["variants"] for f in v["fields"]
                     if re.match(r"^(alloc::vec::Vec|alloc::collections::|std::collections::|indexmap::|smallvec::)", f["ty"]))
    res.floor("owned scratch collections of InferCtx", len(scratch), 1)
    n = 0
    for p, f in sorted(F.fns.items()):
        if not p.startswith(("ide::", "<ide::")) or not f.blocks:
            continue
        es = [e for e in EF.field_effects(f, IC_) if e["field"] in scratch and e["how"] == "mutborrow"]
        for fld in scratch:
            ins = [e for e in es if e["field"] == fld and re.search(r"::(push|push_back|push_front|insert|extend)$", e.get("callee") or "")]
            outs = [e["bb"] for e in es if e["field"] == fld and re.search(r"::(pop|pop_back|pop_front|truncate|clear|remove|swap_remove|shift_remove)$", e.get("callee") or "")]
            for k, e in enumerate(ins):
                n += 1
                leak = f.can_reach(e["bb"], f.return_blocks(), avoid=outs) if outs else True
                res.ob(rule, "%s/%s/entered/%d" % (p.rsplit("::", 1)[-1], fld, k),
                       "what is entered into InferCtx.%s here is taken out again on every path to return (the entry means: in progress)" % fld,
                       not leak, where=f.loc(e["ln"]), how="removing calls on the field in this function: %d; a return is reachable without one: %s" % (len(outs), leak))
    res.floor("entries into scratch collections of InferCtx", n, 1)


def every_child_is_inferred(F, res, rule="Y12"):
    """Y12: the inferencer reaches every child. For every variant of Expr, Pattern and Statement that has child expressions,
    patterns or statements, the arm of infer_expr_inner / infer_pattern / infer_stmts_iter hands every such child (through refs,
    iteration, closures) to a function that gives it a type: infer_expr, infer_pattern, infer_stmts, or the allocator of a
    pattern's type variable (lambda parameters). A child that is not reached keeps no entry in the side tables: hover shows
    nothing for it and every variable bound or used inside it stays untyped. The same analysis as C05 S1 (scopes), applied to
    the second walk over the body."""
    from rules import c05
    V = (IC + "infer_expr", IC + "infer_pattern", IC + "infer_stmts", IC + "infer_stmts_iter", IC + "infer_expr_inner", IC + "ty_for_pattern")
    # helper methods that are handed a child and infer it (infer_same_ty_op(lhs, rhs), infer_comparison(..)): a method of the context
    # with an expression / pattern / statement parameter that reaches one of the functions above within two calls
    V = set(V)
    for _round in range(2):
        for q, g in sorted(F.fns.items()):
            if not q.startswith(IC) or "{closure" in q or q in V or not g.blocks:
                continue
            tys = [g.local_ty(i) or "" for i in range(2, g.d["arg_count"] + 1)]
            if not any("Idx<ide::def::module::Expr>" in t_ or "Idx<ide::def::module::Pattern>" in t_ or "Statement" in t_ or "Clause" in t_ for t_ in tys):
                continue
            unit = [g] + [F.fns[c] for c in F.closures_of(q) if c in F.fns]
            if any((callee(t) or "") in V for u in unit for _b, t in u.calls()):
                V.add(q)
    V = tuple(sorted(V))
    skips = {k: v for k, v in c05.REVIEWED_SKIPS.items()}
    for fn_name, adt, fl in (("infer_expr_inner", "Expr", 10), ("infer_pattern", "Pattern", 5), ("infer_stmts_iter", "Statement", 3)):
        if IC + fn_name not in F.fns:
            res.anchor_missing(rule, IC + fn_name)
            continue
        c05.visitor_completeness(F, res, fn_name, adt, rule=rule, fn_path=IC + fn_name, visits=V, skips=skips, what="infers", floor=fl, selections=False)


def _switch_table(F, fn, key_adt=None, key_ty=None, result_adt=None):
    """[(block, {key variant or number: sorted result variants})] for every switch of fn on a discriminant of key_adt (or on a value
    of integer type key_ty): the variants of result_adt built in blocks only that target reaches"""
    d = FL.Defs(fn)
    out = []
    for b in sorted(fn.reachable()):
        t = fn.term(b)
        if t["k"] != "switch":
            continue
        l = op_local(t["op"])
        o = d.origin(l) if l is not None else {}
        if key_adt is not None:
            if not (o.get("k") == "rv" and o["rv"]["k"] == "discr" and o["rv"].get("of") == key_adt):
                continue
            names = F.discr_map(key_adt)
        else:
            if t.get("ty") != key_ty:
                continue
            names = F.discr_map(SK) if key_ty == "u16" else {}
        tg = {int(v): x for v, x in t["targets"]}
        reach = {}
        for x in set(tg.values()) | {t["otherwise"]}:
            seen, st = {x}, [x]
            while st:
                y = st.pop()
                for z in fn.succ(y):
                    if z not in seen:
                        seen.add(z)
                        st.append(z)
            reach[x] = seen
        table = {}
        for v, x in tg.items():
            others = set().union(*[reach[y] for y in reach if y != x]) if len(reach) > 1 else set()
            own = reach[x] - others
            got = set()
            for bb in own:
                for s_ in fn.blocks[bb]["stmts"]:
                    rv = s_.get("rv") or {}
                    if rv.get("k") == "agg" and rv.get("adt") == result_adt:
                        got.add(rv["variant"])
            table[names.get(v, v)] = sorted(got)
        out.append((b, table))
    return out


def literal_tables(F, res, rule="Y14"):
    """Y14: a literal has the type of its kind. Three tables are read off the switches and chained: the token kind of a LITERAL node ->
    LiteralKind (ast::Literal::kind), LiteralKind -> Ty in infer_expr_inner, LiteralKind -> Ty in infer_pattern. Oracle: Gleam
    (INTEGER is Int, FLOAT is Float, STRING is String). A swapped or merged pair types every such literal wrongly and compiles."""
    LK, TY = "syntax::ast::LiteralKind", "ide::ty::infer::Ty"
    want_tok = {"INTEGER": ["Int"], "FLOAT": ["Float"], "STRING": ["String"]}
    want_ty = {"Int": ["Int"], "Float": ["Float"], "String": ["String"]}
    kf = [f for p_, f in sorted(F.fns.items()) if p_.startswith("syntax::ast::") and p_.endswith("Literal::kind") and f.blocks]
    kf += [F.fns[p_] for p_ in sorted(F.fns) if p_.startswith("syntax::ast::") and "Literal::kind::{closure" in p_ and F.fns[p_].blocks]
    tok = None
    for f in kf:
        for b, table in _switch_table(F, f, key_ty="u16", result_adt=LK):
            if any(table.get(k) for k in want_tok):
                tok = (f, table)
    if tok is None:
        res.anchor_missing(rule, "the switch on the token kind in ast::Literal::kind")
    else:
        f, table = tok
        bad = {k: table.get(k) for k in want_tok if table.get(k) != want_tok[k]}
        extra = {k: v for k, v in table.items() if v and k not in want_tok}
        res.ob(rule, "literal/token-kind", "ast::Literal::kind maps INTEGER, FLOAT and STRING tokens to the literal kind of the same name and nothing else to any",
               not bad and not extra, where=f.loc(), how="table %s" % {k: v for k, v in table.items() if v} if not bad and not extra else "wrong: %s %s" % (bad, extra))
    for fname in ("infer_expr_inner", "infer_pattern"):
        f = F.fns.get(IC + fname)
        if f is None:
            res.anchor_missing(rule, IC + fname)
            continue
        tabs = [t_ for b, t_ in _switch_table(F, f, key_adt=LK, result_adt=TY) if any(t_.values())]
        ok = bool(tabs) and all(t_.get(k) == want_ty[k] for t_ in tabs for k in want_ty)
        res.ob(rule, "literal/%s" % fname, "%s gives a literal of kind Int / Float / String the type of the same name" % fname, ok, where=f.loc(),
               how="tables %s" % tabs)


def resolutions_are_not_memoised_by_name(F, res, rule="Y15"):
    """Y15: what a name means depends on where it stands. A function that resolves names through a resolver built for an expression
    (resolver_for_expr: the scope chain of that expression) must not keep the answers in a table keyed by the name alone: the first
    occurrence decides for all later ones, and a local that shadows a function of the recursion group hides the call that comes
    after it (the group is split, inference runs into a query cycle, both functions lose their types). Checked on the types of the
    locals and captures of every function of crate ide that builds such a resolver: no map or set whose key is a name (SmolStr, str,
    String) and whose value holds the outcome of a resolution (a definition id, a ResolveResult, a scope)."""
    import re as _re
    KEY = _re.compile(r"(?:Hash|BTree|Index|Fx)Map<\s*&?(?:'\w+ )?(?:mut )?(?:smol_str::SmolStr|str|alloc::string::String|std::string::String)\s*,\s*(.*)>$")
    OUTCOME = _re.compile(r"FunctionId|ResolveResult|Definition|ScopeId|AdtId|VariantId|ConstId|ModuleDefId|TypeAliasId|Idx<ide::def::scope::ScopeData>|hir::")
    n, bad = 0, []
    for p_, f in sorted(F.fns.items()):
        if not p_.startswith(("ide::", "<ide::")) or not f.blocks or "{closure" in p_:
            continue
        unit = [f] + [g for q, g in F.fns.items() if q.startswith(p_ + "::{closure") and g.blocks]
        if not any(FL.short(callee(t) or callee_def(t) or "").endswith(("resolver_for_expr", "resolver_for_toplevel")) for g in unit for _b, t in g.calls()):
            continue
        n += 1
        for g in unit:
            # tables made here: the destination of a constructor call (new / default / with_capacity / from_iter / collect)
            for b, t in g.calls():
                c = FL.short(callee(t) or callee_def(t) or "")
                if c.rsplit("::", 1)[-1] not in ("new", "default", "with_capacity", "with_hasher", "from_iter", "collect"):
                    continue
                ty = (g.local_ty(t["dest"]["l"]) or "").replace("&mut ", "").lstrip("&")
                m = KEY.search(ty)
                if m and OUTCOME.search(m.group(1)):
                    bad.append("%s makes a %s" % (FL.short(g.path), ty[:120]))
    res.floor("functions of crate ide that resolve names through a per-expression resolver", n, 4)
    res.ob(rule, "resolution/not-memoised-by-name", "no function that resolves names in the scope of an expression keeps the outcomes in a table keyed by the name alone",
           not bad, where="crates/ide/src", how="%d functions, none with a name-keyed table of resolution outcomes" % n if not bad else "; ".join(sorted(set(bad))[:4]))


def unknowns_are_numbered_by_the_counter(F, res, rule="Y16"):
    """Y16: the number inside `Ty::Unknown { idx }` is what tells two free type variables apart when a type is frozen (the Collector
    gives one letter per idx, Y7 keeps the smaller of two when they are unified). It comes out of one counter (InferCtx.idx, carried
    from one member of a recursion group to the next: Y8). A variable tagged with a number from another space - its index in the
    union-find table, a length - collides with whatever variable the counter gave that number: `fn f(x: a, y) -> b` showed
    `fn f(a, b) -> b`, because the variable of `b` was re-tagged with its table index, which is the counter value of the variable
    made just before it. Every Ty::Unknown built in the inferencer takes its idx from the counter field, from another Unknown (the
    minimum in unify), or is the constant placeholder."""
    TY = "ide::ty::infer::Ty"
    n, bad = 0, []
    for p_, f in sorted(F.fns.items()):
        if not p_.startswith(("ide::ty::infer::", "<ide::ty::infer::")) or not f.blocks:
            continue
        d = None
        for b, i, s_ in f.stmts():
            rv = s_.get("rv") or {}
            if not (rv.get("k") == "agg" and rv.get("adt") == TY and rv.get("variant") == "Unknown" and rv.get("ops")):
                continue
            n += 1
            op = rv["ops"][0]
            if "k" in op:
                continue                        # a constant: the placeholder
            d = d or FL.Defs(f)
            o = d.origin_op(op)
            ok = False
            why = o.get("k")
            if o.get("k") == "field":
                names = [e.get("n") for e in o.get("proj", []) if isinstance(e, dict) and "f" in e]
                base_l = o["base"].get("l")
                bty = f.local_ty(base_l) if base_l is not None else ""
                if "idx" in names:
                    ok = True                   # the counter field, or the payload of another Unknown
                elif "{closure@" in (bty or "") and len(names) == 1:
                    ok = True                   # a counter of the enclosing function, captured (the variables made before any context exists)
                why = "field %s of a %s" % (names, bty)
            elif o.get("k") == "call":
                c = FL.short(callee(o["t"]) or callee_def(o["t"]) or "")
                ok = c.rsplit("::", 1)[-1] in ("min", "max", "clone")
                why = "the answer of %s" % c
            elif o.get("k") in ("arg", "multi", "rv"):
                # a parameter / a value with several definitions: accept when its type is not a table index
                l = o.get("l")
                ok = "TyVar" not in (f.local_ty(l) or "") if l is not None else False
                why = "%s of type %s" % (o.get("k"), f.local_ty(l) if l is not None else "?")
            if not ok:
                bad.append("%s line %s: idx taken from %s" % (FL.short(p_), s_["ln"], why))
    res.floor("Ty::Unknown values built in the inferencer", n, 4)
    res.ob(rule, "unknown/idx-from-the-counter", "every Ty::Unknown built in the inferencer is numbered by the counter (or by another Unknown, or is the constant "
           "placeholder), never by an index into the variable table", not bad, where="crates/ide/src/ty/infer.rs",
           how="%d constructions" % n if not bad else "; ".join(bad))


def type_walkers_are_complete(F, res, rule="Y18"):
    """Y18: whoever walks a type walks all of it. A function of ide::ty that matches on the kind of a type (the inferencer's Ty over
    type variables, or the frozen ty::Ty) and lies on a recursive cycle is a walk over types: instantiation (make_type), freezing
    (Collector), display, and any predicate a later change adds ("is this type closed?"). For every variant that has component
    types the arm hands each of them back into the cycle. A walker that treats `Adt { params }` as a leaf answers for `Box(a)` as
    if it were `Box`: a memo of "closed" function types then shares one instance of `fn(Box(a)) -> Int` between two call sites."""
    import re as _re
    from rules import c05
    cg = F.callgraph()
    ADTS = (("ide::ty::Ty", _re.compile(r"ide::ty::Ty\b")), ("ide::ty::infer::Ty", _re.compile(r"TyVar")))
    memo = {}

    def reach(a):
        if a in memo:
            return memo[a]
        seen, st = set(), [a]
        while st:
            x = st.pop()
            for y in cg.get(x, ()):
                if y not in seen and y.startswith(("ide::ty::", "<ide::ty::")):
                    seen.add(y)
                    st.append(y)
        memo[a] = seen
        return seen
    n = 0
    for p_, f in sorted(F.fns.items()):
        if not p_.startswith(("ide::ty::", "<ide::ty::")) or not f.blocks or "{closure" in p_:
            continue
        if f.d.get("span", {}).get("exp"):
            continue                            # derives
        r = reach(p_)
        if p_ not in r:
            continue
        d = FL.Defs(f)
        for adt, cre in ADTS:
            b0, t = c05.match_on(f, d, adt)
            if t is None or len(t["targets"]) < 4:
                continue
            scc = tuple(sorted(m for m in r if p_ in reach(m))) + (p_,)
            n += 1
            short = p_.rsplit("::", 1)[-1]
            c05.visitor_completeness(F, res, short, "%s/%s" % (short, "Ty" if adt.endswith("::Ty") else adt), rule=rule, fn_path=p_, visits=scc, skips={},
                                     what="descends into", floor=4, selections=False, adt_path=adt, child_re=cre)
    res.floor("recursive walkers over types in ide::ty", n, 3)
