"""C09 — Inferred types agree with Gleam's typing (only the operator table is decided)."""
from lib import flow as FL
from lib import teval
from lib.facts import callee, callee_def, op_local

META = {
    "level": "other",
    "technique": "static analysis: table extraction from MIR switch terminators (token kind -> operator kind -> typing arm) compared with Gleam's operator typing and with the parser's binding-power table",
    "rule": "Y3 freezing a type variable restores its table entry on every path; Y2 the call graph that forms the inference groups resolves a variable with an expression-level resolver (a local binder named "
            "like a top-level function is not a call edge); Y1 every binary operator the parser accepts (infix_bp != None, except |>) has an operator kind in BinaryOp::op_details, "
            "and that kind reaches an arm of the inferencer that unifies the operands with each other and with the operand type Gleam "
            "prescribes, and yields Gleam's result type (Int/Float arithmetic, Int/Float comparison -> Bool, equality -> Bool, "
            "boolean -> Bool, <> -> String). One obligation per operator token.",
    "explanation": "C09 as a whole quantifies over programs and feature interactions of a union-find unifier; no shape argument decides "
                   "it and this check does not pretend to. One clause is structural and necessary: an operator without a typing rule "
                   "leaves every expression using it (and everything bound to it) untyped. That clause is decided for all 22 operators.",
    "not_decided": "everything else in C09: unification, generalisation, labels, pipelines, use, case, cross-module calls (behavioural).",
    "trusted_base": ["Gleam's operator typing as encoded in ORACLE", "rustc MIR"],
    "assumptions": [],
}

SK = "syntax::kind::SyntaxKind"
BK = "syntax::ast::BinaryOpKind"
# operand type, result type ('same' = the operand type)
ORACLE = {
    "PLUS": ("Int", "same"), "MINUS": ("Int", "same"), "STAR": ("Int", "same"), "SLASH": ("Int", "same"), "PERCENT": ("Int", "same"),
    "PLUS_DOT": ("Float", "same"), "MINUS_DOT": ("Float", "same"), "STAR_DOT": ("Float", "same"), "SLASH_DOT": ("Float", "same"),
    "LESS": ("Int", "Bool"), "LESS_EQ": ("Int", "Bool"), "GREATER": ("Int", "Bool"), "GREATER_EQ": ("Int", "Bool"),
    "LESS_DOT": ("Float", "Bool"), "LESS_EQ_DOT": ("Float", "Bool"), "GREATER_DOT": ("Float", "Bool"), "GREATER_EQ_DOT": ("Float", "Bool"),
    "EQ_EQ": (None, "Bool"), "NOT_EQ": (None, "Bool"),
    "AMPER_AMPER": ("Bool", "same"), "VBAR_VBAR": ("Bool", "same"),
    "LT_GT": ("String", "same"),
}


def op_table(F):
    """token kind -> BinaryOpKind variant, read from the switch in BinaryOp::op_details's closure"""
    cl = F.fn("syntax::ast::BinaryOp::op_details::{closure#0}")
    d = FL.Defs(cl)
    dm = F.discr_map(SK)
    for b in sorted(cl.reachable()):
        t = cl.term(b)
        if t["k"] == "switch" and t["ty"] == "u16":
            out = {}
            for v, tgt in t["targets"]:
                for s in cl.blocks[tgt]["stmts"]:
                    rv = s.get("rv")
                    if rv and rv["k"] == "agg" and rv.get("adt") == BK:
                        out[dm[v]] = rv["variant"]
            return out, cl
    return None, cl


def arms(F):
    """BinaryOpKind variant -> (types unified via unify_var_ty, operands unified?, result)"""
    fn = F.fn("ide::ty::infer::InferCtx::infer_expr_inner")
    d = FL.Defs(fn)
    dm = F.discr_map(BK)
    sw = None
    for b in sorted(fn.reachable()):
        t = fn.term(b)
        if t["k"] == "switch":
            l = op_local(t["op"])
            o = d.origin(l) if l is not None else {}
            if o.get("k") == "rv" and o["rv"]["k"] == "discr" and o["rv"]["of"] == BK:
                sw = (b, t)
    if sw is None:
        return None, fn
    b0, t = sw
    tgts = {dm[v]: tgt for v, tgt in t["targets"]}
    listed = set(tgts)
    for v in dm.values():
        tgts.setdefault(v, t["otherwise"])
    reach = {}
    for tgt in set(tgts.values()):
        seen, st = {tgt}, [tgt]
        while st:
            x = st.pop()
            for y in fn.succ(x):
                if y not in seen:
                    seen.add(y)
                    st.append(y)
        reach[tgt] = seen
    common = set.intersection(*reach.values()) if len(reach) > 1 else set()
    out = {}
    for v, tgt in tgts.items():
        region = reach[tgt] - common
        tys, operands, bool_vars, results = [], False, [], []
        for bb in sorted(region):
            tt = fn.term(bb)
            if tt["k"] != "call":
                continue
            c = callee(tt)
            if c == "ide::ty::infer::InferCtx::unify_var_ty":
                o = d.origin_op(tt["args"][2])
                ty = o["rv"]["variant"] if o.get("k") == "agg" else None
                who = d.origin_op(tt["args"][1])
                who_k = "operand" if (who.get("k") == "call" and (callee(who["t"]) or "").endswith("infer_expr")) else \
                    ("fresh" if who.get("k") == "call" and (callee(who["t"]) or "").endswith("new_ty_var") else "?")
                tys.append((ty, who_k))
            if c == "ide::ty::infer::InferCtx::unify_var":
                a = d.origin_op(tt["args"][1])
                bq = d.origin_op(tt["args"][2])
                if all(x.get("k") == "call" and (callee(x["t"]) or "").endswith("infer_expr") for x in (a, bq)) and a.get("bb") != bq.get("bb"):
                    operands = True
        # what does the arm evaluate to? the value stored into the match's result local
        for bb in sorted(region):
            for s in fn.blocks[bb]["stmts"]:
                if s["k"] == "assign" and not s["place"]["p"] and s["rv"]["k"] == "use":
                    o = d.origin_op(s["rv"]["op"])
                    if o.get("k") == "call":
                        cc = callee(o["t"]) or ""
                        if cc.endswith("new_ty_var"):
                            results.append("fresh")
                        elif cc.endswith("infer_expr"):
                            results.append("operand")
        out[v] = {"tys": tys, "operands_unified": operands, "results": results, "explicit": v in listed}
    return out, fn


def run(F, res, tier):
    # Y2: the call graph behind the inference groups resolves callee names like the inferencer does
    from rules import c05
    c05.resolver_provenance(F, res, only="ide::def::scope::dependency_order_query", rule="Y2")
    # Y3: freezing a type variable puts the table entry back on every path (else later collectors of the same
    # inference group see a wiped variable and merge distinct type variables)
    cu = F.fn("ide::ty::infer::Collector::collect_uncached")
    dcu = FL.Defs(cu)
    reps = []
    for b, t in cu.calls():
        if FL.short(callee(t) or callee_def(t)) == "mem::replace":
            o = dcu.origin_op(t["args"][0])
            if o.get("k") == "call" and (callee(o["t"]) or "").endswith("UnionFind::<T>::get_mut"):
                reps.append(b)
    rets = cu.return_blocks()
    take = [b for b in reps if all(cu.dominates(b, r) for r in rets)]
    put = [b for b in reps if b not in take[:1] and all(cu.dominates(b, r) for r in rets)]
    res.ob("Y3", "collector-restores-entry", "Collector::collect_uncached takes the variable's entry out of the table and puts it back on every path to return",
           len(reps) >= 2 and bool(take) and bool(put), where=cu.loc(), how="mem::replace(table.get_mut(i), ..) sites %d, dominating every return: %d" % (len(reps), len(take) + len(put)))
    pure = teval.Pure(F)
    kinds = F.variants(SK)
    infix = [k for k in kinds if pure.call(SK + "::infix_bp", [("e", SK, k)])[2] == "Some"]
    table, cl = op_table(F)
    if table is None:
        res.anchor_missing("Y1", "match on the token kind in BinaryOp::op_details")
        return
    arm, fn = arms(F)
    if arm is None:
        res.anchor_missing("Y1", "match on BinaryOpKind in infer_expr_inner")
        return
    res.analysed["operator_table"] = table
    res.analysed["typing_arms"] = {k: {"unified_with": v["tys"], "operands_unified": v["operands_unified"]} for k, v in sorted(arm.items())}
    res.floor("binary operators the parser accepts", len(infix), 23)
    for k in sorted(infix):
        if k == "VBAR_GT":
            continue
        want = ORACLE.get(k)
        bk = table.get(k)
        if bk is None:
            res.ob("Y1", "op/" + k, "operator %s has an operator kind (else expressions using it stay untyped)" % k, False, where=cl.loc(),
                   how="BinaryOp::op_details has no arm for %s" % k)
            continue
        a = arm.get(bk)
        if want is None or a is None:
            res.ob("Y1", "op/" + k, "operator %s has a typing arm" % k, a is not None and want is not None, where=fn.loc(), how="kind %s" % bk)
            continue
        opnd, result = want
        tys = a["tys"]
        ok_operands = a["operands_unified"]
        ok_opnd = True if opnd is None else (opnd, "operand") in tys
        if result == "same":
            ok_res = "operand" in a["results"] and not any(t_ == "Bool" and w == "fresh" for t_, w in tys) or opnd == "Bool" and "operand" in a["results"]
        else:
            ok_res = (result, "fresh") in tys and "fresh" in a["results"]
        res.ob("Y1", "op/" + k, "operator %s is typed as Gleam prescribes: operands %s and of one type, result %s"
               % (k, opnd or "of any one type", opnd if result == "same" else result),
               ok_operands and ok_opnd and ok_res, where=fn.loc(),
               how="kind %s; unify_var_ty calls %s; operands unified with each other: %s; arm yields %s" % (bk, tys, ok_operands, a["results"]))
