"""C07 — Rename to a fresh name preserves what every identifier means (token exactness, edit construction, gating)."""
from lib import pcache
from lib import flow as FL
from lib.facts import callee, callee_def, op_local
from rules import parser_model as PM
from rules import c08

META = {
    "level": "other",
    "technique": "static analysis: parser abstract interpretation (name-like nodes wrap one token), def-use of the edit construction in rename, dominance of the alias refusal",
    "rule": "N1 every finish_node(NAME|NAME_REF|TYPE_NAME|LABEL) closes a mark under which at most one token and no child "
            "node was recorded, and the tree builder attaches pending trivia before such a node starts; N2 every TextEdit "
            "rename builds deletes a range delivered by the usage search and inserts the new_name parameter verbatim; N3 "
            "the alias refusal in find_def dominates both entry points; R1 (shared with C06) one classifier. One obligation per site. N4 the three label classifiers agree; N5 qualified values; N6 the name an import is registered under and the name it is looked up by read the same fields of the import record; N7 = C05/S10 module qualifiers.",
    "explanation": "The usage search reports name.syntax().text_range(); N1 (decided by engine P for every token sequence) is "
                   "what makes such a range cover exactly one identifier token. N2/N3 are def-use and dominance facts on the MIR "
                   "of ide::ide::rename. Decides token-exactness and gating, not the behaviour. N17 = C14 U12 (engine U). N18 = C05 S7/S8. N19 the binders of one name in the alternatives of a clause classify as one Local.",
    "not_decided": "that the found set is complete and that resolution is unchanged after applying the edits (behavioural).",
    "trusted_base": ["rustc MIR", "engine P's leaf model (C02/M)", "rowan: a node's text_range is the union of its tokens"],
    "assumptions": [],
}

NAME_LIKE = ("NAME", "NAME_REF", "TYPE_NAME", "LABEL")
LOC = "crates/syntax/src/parser.rs"


def binders_of_alternatives_are_one_variable(F, res, rule="N19"):
    """N19 (= C06 R13): `A(x) | B(x) -> x` binds ONE variable x. The scope of the clause holds an entry per alternative and a use
    resolves to the first of them (resolve_name_in_scope); the binder side must answer with the same Local for every one of the
    binders, or the second `x` is a definition of its own that nothing refers to: references / highlight / rename started at the
    first binder or at the use leave it alone (`A(fresh) | B(x) -> fresh`, a clause that no longer compiles), and started at the
    second they edit nothing else. Structurally: the `pat_id` of the Local that `<ast::Pattern as ToDef>::to_def` builds is not the
    raw answer of the source map (`pattern_for_node`) but passes through a function of the body that walks the binders of the
    alternatives (Body::walk_binders) to pick the representative."""
    td = None
    for p_, f in F.fns.items():
        if p_.startswith("<syntax::ast::Pattern as ide::def::semantics::ToDef>::to_def") and "{closure" not in p_ and f.blocks:
            td = f
    if td is None:
        res.anchor_missing(rule, "<syntax::ast::Pattern as ide::def::semantics::ToDef>::to_def")
        return
    # the Local may be built in a private helper of the module that to_def delegates to (`local_for_pattern`)
    units, seen_u = [td], {td.path}
    for u in units:
        if len(units) > 12:
            break
        for _b, t in u.calls():
            q = callee(t) or ""
            if q.startswith("ide::def::semantics::") and q in F.fns and F.fns[q].blocks and q not in seen_u and "{closure" not in q:
                seen_u.add(q)
                units.append(F.fns[q])
    locs = [(u, b, s_) for u in units for b, i, s_ in u.stmts() if (s_.get("rv") or {}).get("k") == "agg" and str(s_["rv"].get("adt") or "").endswith("::Local")]
    ok, how = False, "no Local built in to_def"
    for u, b, s_ in locs:
        d = FL.Defs(u)
        names = s_["rv"].get("fields") or []
        if "pat_id" not in names:
            continue
        o = d.origin_op(s_["rv"]["ops"][names.index("pat_id")], ("Try>::branch",))
        base = o
        for _ in range(4):
            while base.get("k") == "field":
                base = base["base"]
            if base.get("k") == "call" and (callee_def(base["t"]) or callee(base["t"]) or "").endswith("Try::branch") and base["t"]["args"]:
                base = d.origin_op(base["t"]["args"][0])
            else:
                break
        src = (callee(base["t"]) or callee_def(base["t"]) or "") if base.get("k") == "call" else str(base.get("k"))
        walks = False
        if base.get("k") == "call" and src.startswith(("ide::", "<ide::")):
            for q in F.with_helpers(src, depth=2):
                g = F.fns.get(q)
                if g is not None and g.blocks and any((callee(t) or "").endswith("Body::walk_binders") for _b, t in g.calls()):
                    walks = True
        ok = walks
        how = "pat_id <- %s%s" % (FL.short(src), " (walks the binders of the alternatives)" if walks else ": the source map's own answer, one Local per alternative")
    res.ob(rule, "alternatives/one-local-per-name", "the binders of one name in the alternatives of a clause pattern classify as one Local (the one a use resolves to)",
           ok, where=td.loc(), how=how)


def run(F, res, tier):
    binders_of_alternatives_are_one_variable(F, res)
    from rules import c05 as _c05ns
    _c05ns.namespaces(F, res, rule7="N18", rule8="N18")   # an imported constructor stays a value: a type of the same name does not take its place (rename would miss the uses)
    from rules import c14 as _c14u
    _c14u.text_positions_are_counted_in_bytes(F, res, rule="N17", crates=('ide',))   # engine U: rename edits every use: the search range covers the whole file in bytes
    from rules import c05 as _c05s18
    _c05s18.name_tables_have_one_duplicate_policy(F, res, rule="N8")   # a symbol declared twice is one symbol for rename
    _c05s18.qualified_types_do_not_fall_back(F, res, rule="N9")         # `other.Kind` is never the local `Kind` (rename would miss / capture it)
    from rules import c09 as _c09n
    _c09n.declared_types_are_read_in_their_own_module(F, res, rule="N10")   # chained field accesses across modules are found by rename
    R = pcache.results(F)
    n = 0
    for key, v in sorted(R["finish_sites"].items()):
        if v["kind"] not in NAME_LIKE:
            continue
        n += 1
        ok = v["tok"] <= 1 and v["child"] == 0
        res.ob("N1", "%s/%s/%s" % (v["fn"].rsplit("::", 1)[-1], v["kind"], key.rsplit("|", 1)[-1]),
               "the %s node finished here contains at most one token and no child node" % v["kind"],
               ok, where="%s:%d" % (LOC, v["line"]),
               how="max tokens %s, child nodes %s over all contexts" % (v["tok"] if v["tok"] < 2 else "2+", v["child"]))
    res.floor("finish_node sites of name-like kinds", n, 18)
    # the name-like kinds take the default arm of build_tree (pending trivia flushed, then start_node)
    bt = F.fn("syntax::parser::Parser::build_tree")
    d = FL.Defs(bt)
    dm = F.discr_map("syntax::kind::SyntaxKind")
    special = None
    default_tgt = None
    for b in sorted(bt.reachable()):
        t = bt.term(b)
        if t["k"] == "switch" and t["ty"] == "u16":
            l = op_local(t["op"])
            o = d.origin(l) if l is not None else {}
            if o.get("k") == "rv" and o["rv"]["k"] == "discr" and o["rv"]["of"].endswith("SyntaxKind"):
                special = {dm[v] for v, _ in t["targets"]}
                default_tgt = t["otherwise"]
    if special is None:
        res.anchor_missing("N1", "match on node kind in build_tree")
    else:
        res.ob("N1", "build_tree/name-kinds-default-arm", "NAME/NAME_REF/TYPE_NAME/LABEL are opened by build_tree's default arm",
               not (special & set(NAME_LIKE)), where=bt.loc(), how="special-cased kinds: %s" % sorted(special))
        from rules import c01 as _c01
        em = _c01.emitter(F)
        eat = [b for b, t in bt.calls() if callee(t) == em and bt.can_reach(default_tgt, [b])]
        starts = [b for b, t in bt.calls() if (callee(t) or "").endswith("GreenNodeBuilder::start_node") and bt.can_reach(default_tgt, [b])]
        # nearest ones: the eat that is dominated by default_tgt and dominates a start_node
        ok = any(bt.dominates(default_tgt, e) and any(bt.dominates(e, s) and bt.dominates(default_tgt, s) for s in starts) for e in eat)
        res.ob("N1", "build_tree/trivia-before-node", "in that arm pending trivia are emitted before start_node, so they never end up inside a name node",
               ok, where=bt.loc(), how="eat_token dominates start_node in the default arm: %s" % ok)

    # ---- N2
    TE = "ide::text_edit::TextEdit"
    sites = []
    for p in F.with_closures("ide::ide::rename::rename"):
        f = F.fns[p]
        for b, i, s in f.stmts():
            rv = s.get("rv")
            if rv and rv["k"] == "agg" and rv.get("adt") == TE:
                sites.append((f, b, s))
    res.floor("TextEdit constructions in rename", len(sites), 1)
    for f, b, s in sites:
        d2 = FL.Defs(f)
        rv = s["rv"]
        names = rv["fields"]
        do = d2.origin_op(rv["ops"][names.index("delete")])
        ok_del = do.get("k") == "arg" and do["n"] >= 2 and f.kind == "Closure"
        if not ok_del:
            # `for range in ranges` instead of a for_each closure: the value is an item of an iteration over the usage search
            # result, and nothing constructs or shifts a range on the way
            dep = FL.depends(F, f, d2, rv["ops"][names.index("delete")])
            ok_del = any(c.endswith("FindUsages::all") for c in dep["calls"]) and any(c.endswith("Iterator::next") for c in dep["calls"]) and \
                not any(c.startswith("TextRange::") or c.startswith("TextSize::") or "Add" in c or "Sub" in c for c in dep["calls"])
        # the closure must be the one handed to for_each over the ranges of the usage search result
        io = d2.origin_op(rv["ops"][names.index("insert")])
        ok_ins = False
        why = ""
        if io.get("k") == "call" and (callee(io["t"]) or "").endswith("SmolStr::new"):
            # conversions that are the identity on a string that lexes as exactly one identifier token
            ident = FL.PASS_THROUGH + ("::to_string", "::to_owned", "::as_str", "str::trim", "::trim_start", "::trim_end",
                                       "String::from", "SmolStr::new", "::from")
            ao = d2.origin_op(io["t"]["args"][0], ident)
            idx = FL.closure_env_field(ao)
            if idx is not None:
                pf, po = FL.upvar_origin(F, f.path, idx)
                base = po
                while base.get("k") == "field":
                    base = base["base"]
                ok_ins = pf is not None and pf.path == "ide::ide::rename::rename" and base.get("k") == "arg" and pf.debug_name(base["n"]) == "new_name"
                why = "captured from %s %s" % (pf.path if pf else None, pf.debug_name(base["n"]) if pf and base.get("k") == "arg" else base.get("k"))
            elif ao.get("k") == "arg" and f.debug_name(ao["n"]) == "new_name":
                ok_ins = True
        res.ob("N2", "edit/delete-is-found-range", "TextEdit.delete is the range the usage search delivered (closure parameter or loop item), unmodified",
               ok_del, where=f.loc(s["ln"]), how="origin %s" % do.get("k"))
        res.ob("N2", "edit/insert-is-new-name", "TextEdit.insert is SmolStr::new(new_name) of rename's own parameter",
               ok_ins, where=f.loc(s["ln"]), how=why or "origin %s" % io.get("k"))
    # the ranges come from FindUsages::all on def.usages(..).in_scope(package_graph)
    rn = F.fn("ide::ide::rename::rename")
    chain = [PM.short(callee(t) or callee_def(t)) for b, t in rn.calls()]
    want = ["Definition::usages", "SearchScope::package_graph", "FindUsages::in_scope", "FindUsages::all"]
    res.ob("N2", "edit-set-from-usage-search", "the edit set is def.usages(sema).in_scope(package graph).all()",
           all(w in chain for w in want), where=rn.loc(), how="calls: %s" % [c for c in chain if c in want])

    # the search behind the edit set covers the whole package graph (shared with C06/R5)
    from rules import c06
    c06.search_scope_rules(F, res)
    c06.search_rejections_are_reviewed(F, res, rule="N11")
    c06.search_scope_narrowings_are_reviewed(F, res, rule="N12")
    c06.textual_hits_may_overlap(F, res, rule="N16")
    from rules import c10 as _c10n
    _c10n.declared_everywhere(F, res, rule="N15")   # what a name resolves to must not depend on how functions are spelled (group order = declaration order)
    from rules import c01 as _c01n
    _c01n.leaves_start_with_their_token(F, res, rule="N1")   # token-exact names: a NAME node is its identifier token and nothing else
    from rules import c05 as _c05n
    _c05n.lowering_takes_every_child_of_a_list(F, res, rule="N14")   # a binder that is never lowered cannot be renamed
    from rules import c08 as _c08
    _c08.module_locality_implies_package_locality(F, res, rule="N13")   # a local file taken for a fetched one loses its edits
    # a qualified type name is classified through its qualifier (else renaming one of two equally named types edits the other)
    from rules import c05
    c05.qualifier_first(F, res)
    # ---- N3
    find_def = F.fn(c08.FIND_DEF)
    for name in (c08.RENAME, c08.PREPARE):
        fn = F.fn(name)
        # gates of the entry point, with helpers of the rename module expanded (a shared `find_local_def`)
        gs = c08.gate_set(F, fn, FL.ok_blocks(fn))
        left = [g for g in gs if g.get("callee") == c08.FIND_DEF and g["allowed"] == ["Left"]]
        res.ob("N3", "%s/alias-gate" % name.rsplit("::", 1)[-1], "%s succeeds only when find_def returned Left (not the alias refusal)" % name.rsplit("::", 1)[-1],
               bool(left), where=fn.loc(), how="gates %s" % [FL.gate_summary(g) for g in gs][:6])
    lefts = c08.blocks_building(find_def, "Either", "Left")
    gl = FL.gates(F, find_def, lefts) if lefts else []
    alias = [g for g in gl if g["kind"] == "bool" and (g.get("call_def") or "").endswith(("PartialEq::ne", "PartialEq::eq"))]
    res.ob("N3", "find_def/compares-token-text", "find_def's Left return is dominated by a comparison of the token text with the definition's name",
           bool(alias), where=find_def.loc(), how="gates %s" % [FL.gate_summary(g) for g in gl])
    # the range returned is the token's own range
    ok_rng = False
    d3 = FL.Defs(find_def)
    for b, i, s in find_def.stmts():
        rv = s.get("rv")
        if rv and rv["k"] == "agg" and rv.get("agg") == "tuple" and len(rv["ops"]) == 2:
            o = d3.origin_op(rv["ops"][0])
            if o.get("k") == "call" and (callee(o["t"]) or "").endswith("SyntaxToken::<L>::text_range"):
                ok_rng = True
    res.ob("N3", "find_def/range-is-token-range", "the range prepare_rename reports is the text_range of the token under the cursor",
           ok_rng, where=find_def.loc(), how="tuple.0 = tok.text_range()" if ok_rng else "not found")
    label_classifiers_agree(F, res)
    from rules import c05 as _c05
    _c05.qualified_value_kinds(F, res, rule="N5")
    import_names_agree(F, res)
    _c05.module_qualifier_contexts(F, res, rule="N7")


def import_names_agree(F, res, rule="N6"):
    """the name an `import a/b as c` is registered under in the module scope and the name Import::imported_from_module looks it up
    by are computed from the same fields of the import record"""
    from lib import facts as FA
    reg = F.fn("ide::def::scope::module_scope_with_map_query")
    v = FA.with_helpers(F, reg) if hasattr(FA, "with_helpers") else reg
    d = FL.Defs(v)
    keys = []
    for b, t in v.calls():
        if FL.short(callee(t) or "").endswith("::insert") and len(t["args"]) == 3:
            o = d.origin_op(t["args"][0])
            txt = str(o)
            if '"n": "modules"' in __import__("json").dumps(o) or "'n': 'modules'" in txt:
                keys.append((b, t))
    got_reg = set()
    for b, t in keys:
        got_reg |= FL.fields_feeding(F, v, d, t["args"][1], "ModuleImport")
    lk = F.fn("ide::def::hir::Import::import_from_module_name")
    got_lk = FL.fields_feeding(F, lk, FL.Defs(lk), {"cp": {"l": 0, "p": []}}, "ModuleImport")
    user = F.fn("ide::def::hir::Import::imported_from_module")
    uses = any(callee(t) == lk.path for b, t in user.calls()) and any((callee(t) or "").endswith("Resolver::resolve_module") for b, t in user.calls())
    res.ob(rule, "import-name/registered-as-looked-up", "an imported module is looked up (Import::imported_from_module -> resolve_module) under the name "
           "it is registered with in the module scope: both names are computed from the same fields of the import record (alias, else last "
           "path segment) - otherwise `import a/b.{x}` does not resolve and rename of x leaves the import line behind",
           bool(keys) and bool(got_reg) and got_reg == got_lk and uses, where=lk.loc(),
           how="registered from %s, looked up from %s" % (sorted(got_reg), sorted(got_lk)))


def thorough(F, res):
    from lib import pcache as _pc
    _pc.crosscheck(F, res)


def label_classifiers_agree(F, res, rule="N4"):
    """N4: a label is mapped to a field definition at three places — the use site (classify_label), the declaration
    (ToDef for ast::VariantField) and `value.label` in the inferencer. A field shared by all variants is ONE definition
    (Adt::common_fields); the three must make that decision with the same function, before any per-variant lookup,
    else renaming from one side misses the occurrences classified by the other."""
    CF = "ide::def::hir::Adt::common_fields"
    sites = {
        "classify_label": "ide::def::semantics::classify_label",
        "VariantField::to_def": "<syntax::ast::VariantField as ide::def::semantics::ToDef>::to_def",
    }
    for name, path in sorted(sites.items()):
        fn = F.fns.get(path)
        if fn is None:
            res.anchor_missing(rule, path)
            continue
        cf = [b for b, t in fn.calls() if callee(t) == CF]
        per_variant = [b for b, t in fn.calls() if (callee(t) or "").endswith("hir::Variant::fields")]
        ok = bool(cf) and all(any(fn.dominates(c, p) for c in cf) for p in per_variant)
        res.ob(rule, "common-field-first/%s" % name, "%s asks Adt::common_fields before it looks at the fields of one variant" % name,
               ok, where=fn.loc(), how="common_fields calls: %d, per-variant lookups: %d, all dominated: %s" % (len(cf), len(per_variant), ok))
    inf = F.fn("ide::ty::infer::InferCtx::infer_expr_inner")
    cf = [b for b, t in inf.calls() if callee(t) == CF]
    res.ob(rule, "common-field-first/field-access", "`value.label` is resolved through Adt::common_fields", bool(cf), where=inf.loc(),
           how="common_fields calls in infer_expr_inner: %d" % len(cf))
