"""C20 — Every reported range lies inside the document it refers to (who may construct a range; range/file provenance)."""
import re

from lib import flow as FL
from lib import effects as EF
from lib import pcache
from lib.facts import callee, callee_def, op_place
from rules import parser_model as PM

META = {
    "level": "other",
    "technique": "static analysis: who-may-construct (TextRange/TextSize constructors and arithmetic in crate ide against an allow-list of reviewed sites), def-use provenance of (file, range) pairs, parser abstract interpretation for token exactness",
    "rule": "A1 in crate ide a TextRange is obtained only from text_range() of a syntax node/token, from a syntax error, or from one of "
            "the reviewed constructor sites (no TextRange::new/at/empty/up_to/cover/intersect, no TextRange/TextSize arithmetic elsewhere: a cut or joined range is no longer the range of a token); A2 every "
            "NavigationTarget and every search hit pairs a range with the file of the node the range was read from; A3 syntax errors "
            "carry the current token's range or the empty range at the end of the text, and no other Error value is built; A4 name-like "
            "nodes wrap exactly one token (C07/N1). One obligation per constructor site / aggregate. A6 = C13/D6 (the analysis is told about every file the store adds or removes); A7 = C13/D10; A9 = C13/D4; A8 = C13/D9 (the analysis receives the last text recorded for a file, the one the store converts with).",
    "explanation": "A range read off a node or token of parse(file) lies inside that file and on character boundaries by C01 (the tree "
                   "is lossless). So it suffices that every range the analysis reports is such a range, paired with the right file. "
                   "That is a who-may-construct rule over the resolved MIR, checked for every site; conversion to LSP positions is C14. A11 = C14 U12 (engine U). A12 = C14 U9 (the announced position encoding is the implemented one).",
    "not_decided": "ranges after conversion to (line, UTF-16 column) (C14); that every reported file belongs to the workspace.",
    "trusted_base": ["rowan: text_range() of a node/token of a tree lies inside the text the tree was built from", "C01 (losslessness)"],
    "assumptions": [],
}

CTOR = re.compile(r"^text_size::range::TextRange::(new|at|empty|up_to|cover|cover_offset|intersect|checked_add|checked_sub)$|^text_size::(range|size)::<impl core::ops::arith::(Add|Sub|AddAssign|SubAssign)")
# reviewed constructor sites: function -> (constructor, reason)
ALLOWED = {
    ("ide::def::semantics::Definition::to_nav", "TextRange::new"): "Definition::Module: the empty range 0..0 at the start of the module's file",
    ("ide::ide::completion::CompletionContext::new", "TextRange::empty"): "replacement range when nothing is being typed: empty range at the request position",
    ("ide::def::search::FindUsages::search::scope_files::{closure#0}::{closure#0}", "TextRange::up_to"): "search range = the whole text of the very file that is searched (TextSize::of(text))",
    ("ide::ide::signature_help::SignatureHelp::push_param", "TextRange::new"): "indexes the signature string built in the same function, not a document",
    ("ide::base::FileRange::empty", "TextRange::empty"): "helper constructor (its callers are listed as sites themselves)",
    ("ide::base::FileRange::span", "TextRange::new"): "helper constructor (its callers are listed as sites themselves)",
}
HELPERS = ("ide::base::FileRange::empty", "ide::base::FileRange::span")


def in_ide(p):
    return p.startswith(("ide::", "<ide::"))



def index_ranges_are_read_off_the_arena(F, res, rule="A10"):
    """A10: a range of arena slots (the fields of a constructor, the constructors of a type, the parameters of a lambda) names what was
    allocated between two readings of the arena's next index - one before the loop that allocates, one after. A count of what the
    source *wrote* is not the number of slots: the lowering skips a field without a type, so `A(x: , y: Int)` followed by `B(z: Int)`
    would own a field of B; `Variant::fields()` pairs that field with the wrong parent and go-to-definition answers with a focus
    range outside the full range (or the range points past the arena and the walk over the fields panics)."""
    n, bad = 0, []
    for p_, f in sorted(F.fns.items()):
        if not p_.startswith("ide::def::") or not f.blocks:
            continue
        d = None
        for b, t in f.calls():
            if not FL.short(callee(t) or callee_def(t) or "").endswith("IdxRange::new"):
                continue
            d = d or FL.Defs(f)
            n += 1
            o = d.origin_op(t["args"][0])
            ends = []
            if o.get("k") == "agg":
                for x in o["rv"]["ops"]:
                    ox = d.origin_op(x) if isinstance(x, dict) and "k" not in x else {"k": "const"}
                    ends.append(FL.short(callee(ox["t"]) or callee_def(ox["t"]) or "?") if ox.get("k") == "call" else ox.get("k"))
            ok = len(ends) == 2 and ends[0] == ends[1] and isinstance(ends[0], str) and "next_" in ends[0] and ends[0].endswith("_idx")
            if not ok:
                bad.append("%s line %s: ends come from %s" % (FL.short(p_), t["ln"], ends))
    res.floor("arena index ranges built in the lowering", n, 3)
    res.ob(rule, "idx-range/both-ends-read-off-the-arena", "every IdxRange built in the lowering runs from one reading of the arena's next index to a later reading "
           "of the same", not bad, where="crates/ide/src/def", how="%d ranges" % n if not bad else "; ".join(bad))

def run(F, res, tier):
    from rules import c14 as _c14e
    _c14e.one_position_encoding(F, res, rule="A12")   # a range means what the client reads: the announced position encoding is the one implemented
    from rules import c14 as _c14u
    _c14u.text_positions_are_counted_in_bytes(F, res, rule="A11", crates=('syntax', 'ide', 'glas'))   # engine U: every reported range is made of byte offsets of its document
    # ---- A1
    n = 0
    present = {(p_, FL.short(callee(t_) or callee_def(t_) or "")) for p_, f_ in F.fns.items() if in_ide(p_) and f_.blocks for _b, t_ in f_.calls()
               if CTOR.search(callee(t_) or callee_def(t_) or "") or (callee(t_) or callee_def(t_) or "") in HELPERS}
    moved_used = set()
    for p, f in sorted(F.fns.items()):
        if not in_ide(p) or not f.blocks:
            continue
        for b, t in f.calls():
            c = callee(t) or callee_def(t) or ""
            if CTOR.search(c) or c in HELPERS:
                n += 1
                sc = FL.short(c)
                key = (p, sc)
                reason = ALLOWED.get(key)
                if reason is None:
                    # code motion: a reviewed site whose function no longer holds it, and this site sits in a helper (or a closure of a
                    # helper) that the reviewed function's root calls - one reviewed entry vouches for one moved site
                    root = re.sub(r"(::\{closure#\d+\})+$", "", p)
                    for (p0, sc0), why0 in sorted(ALLOWED.items()):
                        if sc0 != sc or (p0, sc0) in present or (p0, sc0) in moved_used:
                            continue
                        root0 = re.sub(r"(::\{closure#\d+\})+$", "", p0)
                        callers = {re.sub(r"(::\{closure#\d+\})+$", "", f_.path) for f_, _b, _t in F.callers_of(lambda cc, root=root: cc == root)}
                        if root0 == root or root0 in callers:
                            reason = why0 + " (the site moved from %s)" % FL.short(p0)
                            moved_used.add((p0, sc0))
                            break
                ordn = [bb for bb, tt in f.calls() if (callee(tt) or callee_def(tt)) == c].index(b)
                res.ob("A1", "ctor/%s/%s/%d" % (p, sc, ordn), "this range is not reported for a document, or is in bounds by construction",
                       reason is not None, where=f.loc(t["ln"]), how=("reviewed: " + reason) if reason else
                       "a TextRange/TextSize is constructed here and the site is not in the reviewed list", reviewed=reason is not None)
    res.floor("range constructor sites in crate ide (positive control)", n, 6)
    # all other TextRange values in answers: text_range() calls
    tr = sum(1 for p, f in F.fns.items() if in_ide(p) for b, t in f.calls() if (callee(t) or "").endswith("::text_range"))
    res.analysed["text_range_calls_in_ide"] = tr
    # ---- A2 NavigationTarget
    NT = "ide::ide::NavigationTarget"
    cons = [(f, b, s) for f, b, s in EF.constructions(F, NT, None, "ide::") if not f.d.get("impl_trait")]
    res.floor("NavigationTarget constructions", len(cons), 8)
    for f, b, s in cons:
        d = FL.Defs(f)
        rv = s["rv"]
        names = rv["fields"]

        def root_call(op):
            o = d.origin_op(op, FL.PASS_THROUGH + ("::text_range", "AstNode>::syntax", "Option::<T>::map", "Option::<T>::unwrap_or_else", "Option::<T>::unwrap_or", "::name", "::label", "SyntaxNode::<L>::parent"))
            base = o
            while base.get("k") == "field":
                base = base["base"]
            return base
        fo = root_call(rv["ops"][names.index("file_id")])
        ro = root_call(rv["ops"][names.index("full_range")])
        fo_c = (callee(fo["t"]) or callee_def(fo["t"])) if fo.get("k") == "call" else fo.get("k")
        ro_c = (callee(ro["t"]) or callee_def(ro["t"])) if ro.get("k") == "call" else ro.get("k")
        same = fo.get("k") == "call" and ro.get("k") == "call" and fo.get("bb") == ro.get("bb")
        ordn = [x[1] for x in cons if x[0] is f].index(b)
        ok = same
        why = "file from %s, range from %s" % (FL.short(fo_c) if isinstance(fo_c, str) else fo_c, FL.short(ro_c) if isinstance(ro_c, str) else ro_c)
        reviewed = False
        if not ok:
            # reviewed exceptions
            if FL.short(ro_c if isinstance(ro_c, str) else "") == "TextRange::new" and fo.get("k") in ("field", "arg", "multi", "unknown"):
                ok, reviewed, why = True, True, "reviewed: Definition::Module pairs the module's own file id with the empty range 0..0"
            elif isinstance(fo_c, str) and isinstance(ro_c, str) and fo_c.endswith("HasSource>::source") and ro_c.endswith("HasSource>::source"):
                ok, reviewed, why = True, True, "reviewed: file from the field's source(), full range from its variant's source(): a field lives in the file of its variant"
        res.ob("A2", "nav/%s/%d" % (f.path.rsplit("::", 1)[-1], ordn), "this NavigationTarget pairs its ranges with the file of the node they were read from",
               ok, where=f.loc(s["ln"]), how=why, reviewed=reviewed)
    # search hits: sink(find_file(node).file_id, node.text_range())
    from rules import c06 as _c06
    for nme in _c06.found_functions(F):
        f0 = F.fn("ide::def::search::FindUsages::" + nme)
        ok = False
        from lib import inline as IL
        for f in (f0, IL.inlined(F, f0, depth=1)):      # second try: the body may have moved into a helper
          if ok:
            break
          d = FL.Defs(f)
          for b, t in f.calls():
              if "fnop" in t or (callee_def(t) or "").endswith("FnMut::call_mut") or (callee(t) or "").endswith("call_mut"):
                  tup = d.origin_op(t["args"][-1])
                  if tup.get("k") == "agg" and len(tup["rv"]["ops"]) == 2:
                      a0 = d.origin_op(tup["rv"]["ops"][0])
                      a1 = d.origin_op(tup["rv"]["ops"][1])
                      b0 = a0
                      while b0.get("k") == "field":
                          b0 = b0["base"]
                      n0 = d.origin_op(b0["t"]["args"][1], ("AstNode>::syntax",)) if b0.get("k") == "call" and (callee(b0["t"]) or "").endswith("Semantics::find_file") else {}
                      n1 = d.origin_op(a1["t"]["args"][0], ("AstNode>::syntax",)) if a1.get("k") == "call" and (callee(a1["t"]) or "").endswith("text_range") else {}
                      ok = bool(n0) and bool(n1) and n0.get("l") == n1.get("l") and n0.get("k") == n1.get("k")
        res.ob("A2", "hit/" + nme, "FindUsages::%s reports (file of the node, text_range of the same node)" % nme, ok, where=f.loc(),
               how="both derive from the same node" if ok else "provenance not established")
    from rules import c06
    c06.highlight_current_file(F, res, "A2")
    # ---- A3
    errs = [(f.path, s["ln"]) for f, b, s in EF.constructions(F, "syntax::Error", None, "") if not f.d.get("impl_trait")]
    res.ob("A3", "error-single-producer", "syntax::Error values are built only in Parser::error", [e[0] for e in errs] == [PM.P + "error"],
           where="crates/syntax/src/parser.rs", how=str(errs))
    pe = F.fn(PM.P + "error")
    d = FL.Defs(pe)
    # the two cases may be closures (map / unwrap_or_else) or arms of a match in error() itself
    clos = [F.fns[c] for c in F.closures_of(pe.path)] + [pe]
    # .. or private helpers of the parser that error() calls (`self.end_of_input()`)
    clos = [F.fns[q] for q in F.with_helpers(pe.path, depth=1) if q.startswith(PM.P) and q != pe.path and F.fns[q].blocks and F.fns[q] not in clos and
            q.rsplit("::", 1)[-1] not in PM.EXPECT] + clos
    tok_range = False
    rng_l = None
    for b_, i_, s0 in pe.stmts():
        rv0 = s0.get("rv")
        if rv0 and rv0["k"] == "agg" and (rv0.get("adt") or "").endswith("syntax::Error"):
            rng_l = FL.op_place(rv0["ops"][rv0["fields"].index("range")]) if hasattr(FL, "op_place") else None
    for cf in clos:
        if cf is pe:
            # match form: some definition of the Error's range local copies tokens[pos].range
            for b_, i_, s_ in pe.stmts():
                if s_["k"] == "assign" and s_["rv"]["k"] == "use":
                    pl_ = s_["rv"]["op"].get("cp") or s_["rv"]["op"].get("mv")
                    if pl_ and pl_.get("p") and isinstance(pl_["p"][-1], dict) and pl_["p"][-1].get("n") == "range":
                        o_ = d.origin_place({"l": pl_["l"], "p": pl_["p"][:-1]})
                        base_ = o_
                        while base_.get("k") == "field":
                            base_ = base_["base"]
                        if base_.get("k") == "call" and (callee(base_["t"]) or "").endswith("[T]::get"):
                            tok_range = True
            continue
        dc0 = FL.Defs(cf)
        for b, i, s_ in cf.stmts():
            if s_["k"] == "assign" and s_["place"]["l"] == 0 and not s_["place"]["p"] and s_["rv"]["k"] == "use":
                o = dc0.origin_op(s_["rv"]["op"])
                if o.get("k") == "field" and o["proj"][-1].get("n") == "range":
                    tok_range = True
    empties = [(cf, t) for cf in clos for b, t in cf.calls() if FL.short(callee(t) or callee_def(t)) == "TextRange::empty"]
    end_ok = False
    for cf, t in empties:
        dc = FL.Defs(cf)
        o = dc.origin_op(t["args"][0], ("From<u32>>::from", "::from", "::into"))
        base = o
        while base.get("k") in ("field",):
            base = base["base"]
        # src.len() as u32
        cs = [FL.short(callee(t2) or callee_def(t2)) for b2, t2 in cf.calls()]
        end_ok = "str::len" in cs or "TextSize::of" in cs
    getpos = False
    for b, t in pe.calls():
        if (callee(t) or "").endswith("[T]::get"):
            o = d.origin_op(t["args"][1])
            getpos = o.get("k") == "field" and o["proj"][-1].get("n") == "pos"
    res.ob("A3", "error-range", "Parser::error uses the current token's range (tokens[pos].range) or, at end of input, the empty range at src.len()",
           tok_range and end_ok and getpos, where=pe.loc(), how="token range: %s, empty(src.len()): %s, index is pos: %s" % (tok_range, end_ok, getpos))
    dg = F.fn("<ide::diagnostic::Diagnostic as core::convert::From<syntax::Error>>::from") if "<ide::diagnostic::Diagnostic as core::convert::From<syntax::Error>>::from" in F.fns else None
    if dg is not None:
        dd = FL.Defs(dg)
        okd = False
        for b, t in dg.calls():
            if (callee(t) or "").endswith("Diagnostic::new"):
                o = dd.origin_op(t["args"][0])
                okd = o.get("k") == "field" and o["proj"][-1].get("n") == "range"
        for b, i, s in dg.stmts():
            rv = s.get("rv")
            if rv and rv["k"] == "agg" and (rv.get("adt") or "").endswith("diagnostic::Diagnostic"):
                o = dd.origin_op(rv["ops"][rv["fields"].index("range")])
                okd = okd or (o.get("k") == "field" and o["proj"][-1].get("n") == "range")
        res.ob("A3", "diagnostic-range", "a syntax diagnostic carries the error's own range", okd, where=dg.loc(), how=str(okd))
    # ---- A4
    R = pcache.results(F)
    bad = [k for k, v in R["finish_sites"].items() if v["kind"] in ("NAME", "NAME_REF", "TYPE_NAME", "LABEL") and (v["tok"] > 1 or v["child"])]
    nn = sum(1 for v in R["finish_sites"].values() if v["kind"] in ("NAME", "NAME_REF", "TYPE_NAME", "LABEL"))
    res.ob("A4", "name-nodes-one-token", "name-like nodes wrap at most one token and no child node, so a name-like result covers a whole token (decided by engine P, see C07/N1)",
           not bad and nn >= 12, where="crates/syntax/src/parser.rs", how="%d finish_node sites of name-like kinds, offending: %s" % (nn, bad))
    # A5: syntax ranges are offsets into the text that was lexed; they are reported against the file's content. Both are
    # the same string only if parse_module lexes its `src` argument as it is (no stripped prefix, no normalisation)
    from rules import c01 as _c01
    _c01.parse_module_rules(F, res, rule="A5")
    _c01.lexer_reads_its_whole_input(F, res, rule="A5")
    index_ranges_are_read_off_the_arena(F, res)
    # A6: a reported file belongs to the workspace as the document store sees it: the analysis is told about every file the
    # store adds or removes before the handler that did it returns (C13/D6)
    from rules import c13 as _c13
    _c13.store_changes_reach_the_analysis(F, res, rule="A6")
    # positions are converted through LineMap in both directions: writer and readers of its table use one coordinate system (C13/D10)
    from rules import c13 as _c13lm
    _c13lm.line_map_coordinates_agree(F, res, rule="A7")
    # ranges are computed on the text the analysis holds and converted with the store's line map: the two must be the same text
    _c13lm.last_text_wins(F, res, rule="A8")
    _c13lm.analysis_gets_every_recorded_text(F, res, rule="A9")
    _c13lm.closing_hands_the_document_back_to_the_disk(F, res, rule="A10")   # ranges reported for a closed file refer to the file on disk


def thorough(F, res):
    from lib import pcache as _pc
    _pc.crosscheck(F, res)
