"""C12 — Snapshots are isolated from later changes; changes cancel, never block (structural clauses)."""
import re
from lib import flow as FL
from lib import effects as EF
from lib.facts import callee, callee_def
from rules import parser_model as PM

META = {
    "level": "other",
    "technique": "static analysis: who-may-touch-field (Analysis.db only inside with_db/Cancelled::catch), signature facts, must-precede in apply_change, error-mapping order",
    "rule": "K1 every public method of Analysis reaches the database only through with_db, whose body is Cancelled::catch(..); "
            "K2 Analysis holds a salsa::Snapshot and has no &mut method, AnalysisHost::apply_change takes &mut self and requests "
            "cancellation before writing; K3 the server maps a Cancelled error to REQUEST_CANCELLED before any other mapping. "
            "One obligation per Analysis method / clause. K4 no public Analysis method discards a Cancelled error (unwrap_or*, ok(), an Err arm that reaches Ok(..)). K5/K6 = C11 H6/H7; K7 no build profile sets panic = abort; K10 = C09 Y6 (the inference groups are complete, else two groups ask for each other: a cycle). K9 = C10 Q10 (no cycle of the query graph can happen: snapshots taken after a change that closes an import cycle panicked). K8 = C10 Q9 (no recursive walk descends twice into one child: a 2^depth loop has no cancellation point, the change never completes). K12 = C10 Q14, K13 = C10 Q15 (an expression is inferred once; a variable is not unified with its own class: both were 2^n loops without a cancellation point). K14 a lexer callback that can scan to the end of the input remembers the failure (else lexing is quadratic: 146 s for 1 MB of quotes, a step no cancellation can interrupt).",
    "explanation": "Decides the narrow structural clauses that make cancellation surface as Err(Cancelled) rather than as an "
                   "unwinding panic and that make snapshot isolation salsa's job. The interleaving clauses of C12 (exactly the "
                   "pre-change answer or cancellation, prompt completion) quantify over schedules and are not decided.",
    "not_decided": "never a mixture of pre- and post-change answers; prompt completion of apply_change (schedules, time): salsa's snapshot isolation is trusted.",
    "trusted_base": ["salsa 0.17 snapshot isolation and cancellation", "rustc MIR"],
    "assumptions": [],
}

AN = "ide::ide::Analysis"


def failed_scan_is_remembered(F, res, rule="K14"):
    """K14: lexing is linear. The string callback scans the rest of the input for the closing quote; when there is none the quote
    becomes an ERROR token and lexing resumes behind it, so `"\\"\\"\\"..` scanned to the end once per quote (146 s for 1 MB, in a step
    without a cancellation point: the change that follows waits that long). A callback of the generated lexer that walks the
    remainder in a loop and can leave it by exhaustion must record that in the lexer's state, and the walk must sit behind a test of
    that state."""
    n, bad = 0, []
    from rules import c01 as _c01v
    for p_, f in sorted(F.fns.items()):
        if not p_.startswith("syntax::lexer::") or not f.blocks or "{closure" in p_:
            continue
        if not any(FL.short(callee(t) or callee_def(t) or "").endswith("Lexer::remainder") for _b, t in f.calls()):
            continue
        if p_ == "syntax::lexer::lex_string":
            f = _c01v.lexer_callback_view(F)      # the scanning loop may live in a private helper
        d = FL.Defs(f)
        for hd in sorted({h for _t, h in f.back_edges()}):
            loop = set()
            for tl, h2 in f.back_edges():
                if h2 == hd:
                    loop |= f.natural_loop(tl, hd)
            # exits by exhaustion: the None edge of a next() in the loop that leaves the loop
            exits = []
            for b, t in f.calls():
                if b in loop and FL.short(callee(t) or callee_def(t) or "").endswith("::next"):
                    tt = f.term(t["target"]) if t.get("target") is not None else {}
                    if tt.get("k") == "switch":
                        exits += [x for v, x in tt["targets"] if int(v) == 0 and x not in loop]
            if not exits:
                continue
            n += 1
            written = set()
            for x in exits:
                for b2 in [x] + sorted(bb for bb in f.reachable() if f.can_reach(x, [bb])):
                    for s_ in f.blocks[b2]["stmts"]:
                        if s_["k"] == "assign" and any(isinstance(e, dict) and e.get("n") == "extras" for e in s_["place"]["p"]):
                            written.add(tuple(e.get("n") for e in s_["place"]["p"] if isinstance(e, dict) and "f" in e))
            tested = set()
            for g in FL.gates(F, f, [hd], d):
                o = g.get("origin") or {}
                if o.get("k") == "field" and g.get("allowed") in ([False], [0]):
                    names = tuple(e.get("n") for e in o.get("proj", []) if isinstance(e, dict) and "f" in e)
                    if "extras" in names:
                        tested.add(names)
            if not (written & tested):
                bad.append("%s: the loop at line %s can run to the end of the input again for every later quote (state written on exhaustion: %s, tested before "
                           "the walk: %s)" % (FL.short(p_), f.blocks[hd]["term"].get("ln", f.line), sorted(written), sorted(tested)))
    res.ob(rule, "lexer/failed-scan-remembered", "a lexer callback that can walk the remainder to its end records the failure in the lexer's state and does "
           "not walk again while that state is set", n > 0 and not bad, where="crates/syntax/src/lexer.rs",
           how="%d scanning loop(s), each behind a test of the state its exhaustion sets" % n if n and not bad else ("; ".join(bad) or "no scanning loop found"))


def run(F, res, tier):
    from rules import c11 as _c11h9
    _c11h9.every_part_of_a_change_is_applied(F, res, rule="K11")   # a dropped input: later snapshots do not see the new workspace
    methods = [f for p, f in F.fns.items() if f.d.get("impl_self") == AN and not f.d.get("impl_trait") and f.kind == "AssocFn"]
    pub = [f for f in methods if f.d.get("vis") == "Public"]
    res.floor("public query methods of Analysis", len(pub), 11)
    res.analysed["analysis_methods"] = sorted(f.name for f in methods)
    for f in sorted(pub, key=lambda x: x.name):
        calls = [callee(t) or callee_def(t) for b, t in f.calls()]
        direct = [e for e in EF.field_effects(f, AN) if e["field"] == "db"]
        # closures defined in the method run inside with_db: they receive the db as a parameter, not via self
        clos_touch = []
        for c in F.with_closures(f.path)[1:]:
            clos_touch += [e for e in EF.field_effects(F.fns[c], AN) if e["field"] == "db"]
        ok = calls.count(AN + "::with_db") == 1 and not direct and not clos_touch and \
            all(c == AN + "::with_db" or not (c or "").startswith("ide::") for c in calls)
        res.ob("K1", "method/%s" % f.name, "Analysis::%s reaches the database only through with_db (so cancellation becomes Err(Cancelled))" % f.name,
               ok, where=f.loc(), how="calls %s; direct uses of self.db: %d" % ([PM.short(c) for c in calls], len(direct) + len(clos_touch)))
        mut = f.d["inputs"][0].startswith("&mut ") if f.d.get("inputs") else False
        res.ob("K2", "method/%s/shared-self" % f.name, "Analysis::%s takes &self (snapshots are immutable)" % f.name, not mut,
               where=f.loc(), how=f.d["inputs"][0] if f.d.get("inputs") else "no receiver", nontrivial=False)
    wd = F.fn(AN + "::with_db")
    cs = [callee(t) or callee_def(t) for b, t in wd.calls()]
    catch = [c for c in cs if (c or "").endswith("Cancelled::catch")]
    res.ob("K1", "with_db/catch", "with_db's body is a single Cancelled::catch(..) around the query", len(catch) == 1 and len(cs) == 1,
           where=wd.loc(), how="calls %s" % cs)
    inner = [F.fns[c] for c in F.with_closures(wd.path)[1:]]
    touches = sum(1 for c in inner for e in EF.field_effects(c, AN) if e["field"] == "db") + \
        sum(1 for e in EF.field_effects(wd, AN) if e["field"] == "db")
    res.ob("K1", "with_db/db-inside-catch", "the database is dereferenced inside the closure given to Cancelled::catch",
           len(inner) >= 1 and touches >= 1, where=wd.loc(), how="closures %d, accesses to self.db %d" % (len(inner), touches))
    # nothing between a query and Cancelled::catch may catch unwinds: salsa delivers cancellation by unwinding
    roots = [f.path for f in pub]
    reach = F.reachable_from(roots)
    catchers = []
    for p_ in reach:
        if not p_.startswith(("ide::", "<ide::", "syntax::", "<syntax::")):
            continue
        for b, t in F.fns[p_].calls():
            c = callee(t) or callee_def(t) or ""
            if c.endswith("panic::catch_unwind") or c.endswith("panicking::try") or c.endswith("panicking::catch_unwind"):
                catchers.append((p_, t["ln"]))
    res.ob("K1", "no-unwind-catcher-in-queries", "no code reachable from a query catches unwinds (it would swallow salsa's Cancelled and turn a cancelled query into a partial answer)",
           not catchers, where="crates/ide/src", how="%d reachable functions scanned" % len(reach) if not catchers else str(catchers[:3]))
    a = F.adt(AN)
    flds = [(x["name"], x["ty"]) for x in a["variants"][0]["fields"]]
    res.ob("K2", "analysis-is-snapshot", "Analysis consists of exactly one field: a salsa::Snapshot of the database",
           len(flds) == 1 and flds[0][1].startswith("salsa::Snapshot<"), where="crates/ide/src/ide/mod.rs", how=str(flds))
    host = F.adt("ide::ide::AnalysisHost")
    res.ob("K2", "host-owns-db", "AnalysisHost consists of exactly the database", [x["name"] for x in host["variants"][0]["fields"]] == ["db"],
           where="crates/ide/src/ide/mod.rs", how=str([x["name"] for x in host["variants"][0]["fields"]]))
    ac = F.fn("ide::ide::AnalysisHost::apply_change")
    res.ob("K2", "apply_change-exclusive", "AnalysisHost::apply_change takes &mut self (no snapshot can be taken concurrently through the host)",
           ac.d["inputs"][0].startswith("&mut "), where=ac.loc(), how=ac.d["inputs"][0], nontrivial=False)
    # cancellation = request_cancellation(), or its body written out: salsa's synthetic_write on the database
    rc = [b for b, t in ac.calls() if callee(t) == "ide::ide::AnalysisHost::request_cancellation" or
          (callee(t) or callee_def(t) or "").endswith("::synthetic_write")]
    ap = [b for b, t in ac.calls() if callee(t) == "ide::base::Change::apply"]
    res.ob("K2", "cancel-before-write", "apply_change requests cancellation before it writes the inputs",
           len(rc) == 1 and len(ap) == 1 and ac.dominates(rc[0], ap[0]), where=ac.loc(), how="request_cancellation %d, Change::apply %d" % (len(rc), len(ap)))
    unconditional, how = apply_unconditional(F)
    res.ob("K2", "apply-on-every-path", "apply_change writes the inputs on every path (a change is never silently dropped)", unconditional,
           where=ac.loc(), how=how)
    rq = F.fn("ide::ide::AnalysisHost::request_cancellation")
    sw = [c for c in (callee(t) or callee_def(t) for b, t in rq.calls()) if (c or "").endswith("synthetic_write")]
    res.ob("K2", "cancellation-is-synthetic-write", "request_cancellation performs a salsa synthetic write (which cancels running queries)",
           len(sw) == 1, where=rq.loc(), how=str(sw))
    hs = F.fn("ide::ide::AnalysisHost::snapshot")
    sn = [c for c in (callee(t) or callee_def(t) for b, t in hs.calls()) if (c or "").endswith("ParallelDatabase>::snapshot") or (c or "").endswith("ParallelDatabase::snapshot")]
    res.ob("K2", "snapshot-is-salsa-snapshot", "AnalysisHost::snapshot builds the Analysis from salsa's ParallelDatabase::snapshot", len(sn) == 1,
           where=hs.loc(), how=str([callee(t) or callee_def(t) for b, t in hs.calls()]))
    # ---- K3
    er = F.fn("glas::server::error_to_response")
    d = FL.Defs(er)
    is_c = [(b, t) for b, t in er.calls() if (callee(t) or callee_def(t) or "").endswith("Error::is") and "Cancelled" in str(t["fn"].get("targs"))]
    others = [b for b, t in er.calls() if "downcast" in (callee(t) or callee_def(t) or "")]
    ok = len(is_c) == 1 and all(er.dominates(is_c[0][0], o) for o in others)
    code_ok = False
    if is_c:
        # the block taken when is::<Cancelled>() is true builds ResponseError::new(REQUEST_CANCELLED, ..)
        for b, t in er.calls():
            if (callee(t) or "").endswith("ResponseError::new"):
                gs = FL.gates(F, er, [b], d)
                if any(g.get("call_bb") == is_c[0][0] and g["allowed"] == [True] for g in gs):
                    k = t["args"][0].get("k") or {}
                    code_ok = k.get("def", "").endswith("ErrorCode::REQUEST_CANCELLED") or str(k.get("bits")) in ("4294934496", "-32800")
                    res.analysed["cancel_code_const"] = k.get("def") or k.get("bits") or k.get("text")
    res.ob("K3", "cancelled-first", "error_to_response tests err.is::<Cancelled>() before any other mapping", ok, where=er.loc(),
           how="is::<Cancelled> sites %d, later downcasts %d" % (len(is_c), len(others)))
    res.ob("K3", "maps-to-request-cancelled", "a Cancelled error becomes ErrorCode::REQUEST_CANCELLED", code_ok, where=er.loc(),
           how="constant %s" % res.analysed.get("cancel_code_const"))
    cancelled_not_swallowed(F, res, sorted(pub, key=lambda x: x.name), "K4", lambda f: "Analysis::%s" % f.name)
    # what salsa may back-date is decided by the equality of the query values (C11 H6/H7): a scope that compares equal although a
    # visibility, an id or an order changed leaves the dependents with the old answer
    from rules import c11 as _c11
    _c11.value_equality_rules(F, res, rule="K5", rule2="K6")
    cancellation_can_unwind(F, res)
    # a walk that doubles with every level of nesting never reaches a cancellation point: the change waits for it for ever
    from rules import c10 as _c10
    _c10.no_double_descent(F, res, rule="K8")
    failed_scan_is_remembered(F, res)
    _c10.inference_is_memoised(F, res, rule="K12")
    _c10.same_class_is_a_no_op(F, res, rule="K13")
    _c10.display_is_budgeted(F, res, rule="K15")
    _c10.recursion_follows_nesting_not_length(F, res, rule="K16")
    _c10.instantiation_shares_what_the_type_shares(F, res, rule="K18")
    from rules import c13 as _c13k
    _c13k.last_text_wins(F, res, rule="K17")   # snapshots taken after a change see its last text
    # never a panic: a query cycle met while salsa validates a memo after a change panics on every later snapshot
    _c10.cycles_are_cut(F, res, rule="K9")
    from rules import c09 as _c09
    _c09.groups_scan_every_body(F, res, rule="K10")


def apply_unconditional(F):
    """Does AnalysisHost::apply_change reach Change::apply on every path? A skip is acceptable only behind
    Change::is_empty, and only if is_empty looks at every field apply() consumes."""
    ac = F.fn("ide::ide::AnalysisHost::apply_change")
    ap = [b for b, t in ac.calls() if callee(t) == "ide::base::Change::apply"]
    rets = ac.return_blocks()
    unconditional = bool(ap) and all(ac.dominates(ap[0], r) for r in rets)
    how = "Change::apply dominates every return"
    if not unconditional and ap:
        CH = "ide::base::Change"
        gs = [g for r in rets if not ac.dominates(ap[0], r) for g in FL.gates(F, ac, [r])]
        empties = [g for g in gs if (g.get("callee") or "").endswith("Change::is_empty") and g["allowed"] == [True]]
        consumed = {e["field"] for e in EF.field_effects(F.fn("ide::base::Change::apply"), CH)}
        looked = {e["field"] for e in EF.field_effects(F.fn("ide::base::Change::is_empty"), CH)}
        unconditional = bool(empties) and consumed <= looked
        how = "early return gated by %s; is_empty reads %s, apply consumes %s" % ([FL.gate_summary(g) for g in gs][:3], sorted(looked), sorted(consumed))
    return unconditional, how


DISCARD = ("unwrap_or", "unwrap_or_default", "unwrap_or_else", "ok", "is_ok", "is_err", "unwrap", "expect", "map_or", "map_or_else", "or", "or_else")


def cancelled_not_swallowed(F, res, fns, rule, what):
    """a `Cancellable<T>` (= Result<T, salsa::Cancelled>) is only ever propagated: nothing turns its Err into a value
    (unwrap_or_default, ok(), a `let Ok(x) = .. else { return Ok(..) }`), else a cancelled query is answered with a made-up
    result instead of a cancellation"""
    from lib.facts import op_local
    for f in fns:
        d = FL.Defs(f)
        bad = []
        for b, t in f.calls():
            full = (t.get("fn") or {}).get("full", "") or ""
            m = re.match(r"^core::result::Result::<.*Cancelled>::(\w+)", full)
            if m and m.group(1) in DISCARD:
                bad.append("%s() on a Cancellable at line %d" % (m.group(1), t["ln"]))
        # a match on a Cancellable whose Err arm produces an Ok return value
        for b in sorted(f.reachable()):
            t = f.term(b)
            if t["k"] != "switch":
                continue
            l = op_local(t["op"])
            o = d.origin(l) if l is not None else {}
            if not (o.get("k") == "rv" and o["rv"]["k"] == "discr" and "Result" in o["rv"]["of"]):
                continue
            pl = o["rv"]["place"]
            ty = f.local_ty(pl["l"]) if not pl["p"] else ""
            if "Cancelled" not in ty:
                continue
            err_tgts = [tg for v, tg in t["targets"] if v == 1] or [t["otherwise"]]
            for e in err_tgts:
                seen, st = {e}, [e]
                while st:
                    x = st.pop()
                    for s_ in f.blocks[x]["stmts"]:
                        if s_["k"] == "assign" and s_["place"]["l"] == 0 and not s_["place"]["p"] and s_["rv"]["k"] == "agg" and \
                                (s_["rv"].get("adt") or "").endswith("result::Result") and s_["rv"].get("variant") == "Ok":
                            bad.append("the Err arm of a match on a Cancellable at line %d reaches `Ok(..)` as the return value" % t["ln"])
                    for y in f.succ(x):
                        if y not in seen and y != b:
                            seen.add(y)
                            st.append(y)
        res.ob(rule, "cancelled-propagates/%s" % f.path.rsplit("::", 1)[-1], "%s only propagates a cancellation (`?`), it never replaces it by a value" % what(f),
               not bad, where=f.loc(), how="no discarding use of a Cancellable" if not bad else "; ".join(sorted(set(bad))[:3]))


def cancellation_can_unwind(F, res, rule="K7"):
    """K7: salsa delivers cancellation by unwinding (Cancelled is a panic payload caught by Cancelled::catch). A build profile with
    panic = "abort" turns every cancelled query into the death of the process. Read from the Cargo manifests of the tree."""
    import json, os, tomllib
    path = os.path.join(F.dir, "manifests.json")
    if not os.path.exists(path):
        res.anchor_missing(rule, "manifests.json next to the facts")
        return
    ms = json.load(open(path))
    bad = []
    nprof = 0
    for f, txt in sorted(ms.items()):
        try:
            t = tomllib.loads(txt)
        except Exception as e:  # noqa
            res.anchor_missing(rule, "%s does not parse: %s" % (f, e))
            continue
        for name, prof in (t.get("profile") or {}).items():
            nprof += 1
            if isinstance(prof, dict) and prof.get("panic") == "abort":
                bad.append("%s [profile.%s]" % (f, name))
    res.ob(rule, "profiles/panic-unwinds", "no build profile of the workspace sets panic = abort: cancellation reaches a running query as an unwind",
           not bad, where="Cargo.toml", how="%d manifests, %d profile sections; panic = abort in: %s" % (len(ms), nprof, bad))
    res.floor("Cargo manifests read", len(ms), 5)
