"""C19 — Semantic-token stream decodes to exactly the highlighted identifiers (tag table, order, encoder shape)."""
from lib import flow as FL
from lib import effects as EF
from lib import facts as FA
from lib.facts import callee, callee_def, op_local, op_place

META = {
    "level": "other",
    "technique": "static analysis: enum coverage (every highlight tag is produced and mapped to the token type of the same name, legend = the same table), who-may-construct (HlRange only from the token walk), def-use shape of the relative encoder",
    "rule": "Z1 every HlTag variant is produced by highlight(), mapped to the TokenTypeIdx variant of the same name, and the advertised "
            "legend is the table those indices refer to; Z2 highlight() enumerates tokens with successors(first, next_token) and is the "
            "only producer of HlRange, nothing reorders the list before encoding; Z3 a local is tagged Function exactly when its "
            "inferred type is a function type; Z4 the encoder emits (line - prev_line, start - prev_start, end - start) and updates "
            "(prev_line, prev_start) after every token, resetting prev_start on a new line. One obligation per tag / clause. Z4 also: the previous-token position moves only after a token was pushed. Z5 = C13/D10. Z8 highlight enumerates tokens by a tree walk (next_token stops at token-less nodes). Z7 = C13/D4, D9 (the analysis computes on the text whose line map the encoder uses). Z6 the legend of the initialize response is the table the encoder indexes, independent of the client's capabilities. Z10 = C09/Y11 (a function-typed local is tagged from its inferred type: an alias left 'in progress' turns the next mention of the alias into an unknown).",
    "explanation": "Decides the table and shape clauses of C19. That `end - start` and the clamping against the line end never "
                   "underflow for any text is arithmetic over runtime strings (see C14) and is not decided. Z12 = C14 U12 (engine U). Z13 = C13 D2.",
    "not_decided": "absence of underflow in the UTF-16 column arithmetic; exactness of the set of highlighted identifiers for every program.",
    "trusted_base": ["rustc MIR", "rowan: next_token walks tokens in document order"],
    "assumptions": [],
}

HL = "ide::ide::semantic_highlighting::"


def run(F, res, tier):
    from rules import c13 as _c13z
    _c13z.edits_use_the_current_line_map(F, res, rule="Z13")   # the tokens are computed on the text of the client: every change of a notification is applied with the current line map
    from rules import c14 as _c14u
    _c14u.text_positions_are_counted_in_bytes(F, res, rule="Z12", crates=('ide',))   # engine U: token ranges handed to the encoder are byte ranges
    tags = F.variants(HL + "HlTag")
    hi = F.fn(HL + "highlight")
    # highlight(), its closures, and the helpers of its own module it calls (the per-token classification may be a
    # closure or a named function)
    fs = [F.fns[p] for p in F.with_helpers(hi.path, depth=2) if p.startswith(HL)]
    produced = set()
    for f in fs:
        for b, i, s in f.stmts():
            rv = s.get("rv")
            if rv and rv["k"] == "agg" and rv.get("adt") == HL + "HlTag":
                produced.add(rv["variant"])
        for op in __import__("lib.facts", fromlist=["x"]).all_operands(f):
            k = op.get("k")
            if k and k.get("ty") == HL + "HlTag" and k.get("variant"):
                produced.add(k["variant"])
    mp = F.fn("glas::semantic_tokens::to_semantic_type_and_modifiers")
    d = FL.Defs(mp)
    dm = F.discr_map(HL + "HlTag")
    mapping = {}
    for b in sorted(mp.reachable()):
        t = mp.term(b)
        if t["k"] == "switch":
            tg = {dm[v]: x for v, x in t["targets"]}
            for v in dm.values():
                tg.setdefault(v, t["otherwise"])
            for v, x in tg.items():
                for s in mp.blocks[x]["stmts"]:
                    rv = s.get("rv")
                    if rv and rv["k"] == "agg" and (rv.get("adt") or "").endswith("TokenTypeIdx"):
                        mapping[v] = rv["variant"]
    for tname in tags:
        res.ob("Z1", "produced/" + tname, "highlight() can produce HlTag::%s" % tname, tname in produced, where=hi.loc(),
               how="tags constructed in highlight: %s" % sorted(produced))
        res.ob("Z1", "mapped/" + tname, "HlTag::%s is sent as the semantic token type of the same name" % tname,
               mapping.get(tname) == tname, where=mp.loc(), how="maps to %s" % mapping.get(tname))
    idx = F.variants("glas::semantic_tokens::TokenTypeIdx")
    arr = F.consts.get("glas::semantic_tokens::SEMANTIC_TOKEN_TYPES", {})
    res.analysed["TokenTypeIdx"] = idx
    # legend: capabilities uses SEMANTIC_TOKEN_TYPES
    cap = F.fn("glas::capabilities::negotiate_capabilities")
    uses = any((op.get("k") or {}).get("def") == "glas::semantic_tokens::SEMANTIC_TOKEN_TYPES" for op in __import__("lib.facts", fromlist=["x"]).all_operands(cap))
    res.ob("Z1", "legend", "the advertised semantic-token legend is SEMANTIC_TOKEN_TYPES, the table TokenTypeIdx indexes (both generated by def_index! in one order)",
           uses and set(idx) >= set(tags), where=cap.loc(), how="legend uses the table: %s; TokenTypeIdx variants %s" % (uses, idx))
    enc = F.fn("glas::convert::to_semantic_tokens")
    de0 = FL.Defs(enc)
    casts = []
    for b, i, s in enc.stmts():
        rv = s.get("rv", {})
        if rv.get("k") == "cast" and rv.get("ty") == "u32":
            o = de0.origin_op(rv["op"])
            if o.get("k") == "rv" and o["rv"]["k"] == "discr" and o["rv"]["of"].endswith("TokenTypeIdx"):
                casts.append(s)
    res.ob("Z1", "type-index", "the encoder sends `TokenTypeIdx as u32` (the variant's position in the legend)", bool(casts), where=enc.loc(),
           how="cast sites %d" % len(casts))
    # ---- Z2
    cons = [(f.path, s["ln"]) for f, b, s in EF.constructions(F, HL + "HlRange", None, "ide::") if not f.d.get("impl_trait")]
    cons += [(f.path, s["ln"]) for f, b, s in EF.constructions(F, HL + "HlRange", None, "glas::") if not f.d.get("impl_trait")]
    res.ob("Z2", "single-producer", "HlRange values are built only inside highlight()", bool(cons) and all(p.startswith(hi.path) for p, _ in cons),
           where=hi.loc(), how=str(cons))
    names = [FL.short(callee(t) or callee_def(t)) for f in fs for b, t in f.calls()]
    walk = "successors::successors" in names or any(n.endswith("::successors") or n == "iter::successors" for n in names)
    nxt = any(n.endswith("SyntaxToken::next_token") for n in names)
    reorder = [n for n in names if n.split("::")[-1] in ("sort", "sort_by", "sort_by_key", "reverse", "rev", "sort_unstable", "sort_unstable_by_key", "dedup")]
    tree = any(n.rsplit("::", 1)[-1] in ("descendants_with_tokens", "preorder_with_tokens") for n in names)
    res.ob("Z2", "document-order", "highlight() enumerates the tokens front to back (a pre-order walk of the tree, or successors(first, next_token)) and "
           "nothing reorders the result", (tree or walk and nxt) and not reorder, where=hi.loc(),
           how="tree walk: %s; successors: %s next_token: %s; reordering calls: %s" % (tree, walk, nxt, reorder))
    # the range bound: a token is included iff it starts before the range end (or: ends at or before it);
    # `end < range_end` would drop an identifier that ends exactly at the end of the requested range
    bound = None
    # the two tests may be closures handed to skip_while / take_while or named predicates of the module that highlight() hands on
    preds = [f for f in fs if f.path != hi.path]
    for f in preds:
        dfc = FL.Defs(f)
        for b, t in f.calls():
            c = callee(t) or callee_def(t) or ""
            if c.endswith("PartialOrd::lt") or c.endswith("PartialOrd::le") or c.endswith("PartialOrd>::lt") or c.endswith("PartialOrd>::le"):
                o = dfc.origin_op(t["args"][0])
                if o.get("k") == "call":
                    side = FL.short(callee(o["t"]) or callee_def(o["t"]))
                    if side in ("TextRange::start", "TextRange::end"):
                        bound = (side.rsplit("::", 1)[-1], c.rsplit("::", 1)[-1])
    res.ob("Z2", "range-bound", "a range request keeps every token that starts before the range end (start < end_pos) or lies inside it (end <= end_pos)",
           bound in (("start", "lt"), ("end", "le")), where=hi.loc(), how="take_while compares token %s with the range end using %s" % (bound or ("?", "?")))
    for p in ("glas::handler::semantic_token_full", "glas::handler::semantic_token_range", "glas::convert::to_semantic_tokens"):
        f = F.fn(p)
        nm = [FL.short(callee(t) or callee_def(t)) for b, t in f.calls()]
        ro = [n for n in nm if n.split("::")[-1] in ("sort", "sort_by", "sort_by_key", "reverse", "rev", "sort_unstable", "dedup", "retain")]
        res.ob("Z2", "no-reorder/" + p.rsplit("::", 1)[-1], "%s passes the highlight list on in its original order" % p.rsplit("::", 1)[-1], not ro,
               where=f.loc(), how="reordering calls: %s" % ro)
    # ---- Z3
    clos = [f for f in fs if f.path != hi.path]
    ok3 = False
    for f in clos:
        df = FL.Defs(f)
        tycalls = [(b, t) for b, t in f.calls() if callee(t) == "ide::def::hir::Local::ty"]
        for b, t in tycalls:
            # a switch on the discriminant of that type decides the Function tag
            for b2 in sorted(f.reachable()):
                t2 = f.term(b2)
                if t2["k"] == "switch":
                    l = op_local(t2["op"])
                    o = df.origin(l) if l is not None else {}
                    if o.get("k") == "rv" and o["rv"]["k"] == "discr" and o["rv"]["of"] == "ide::ty::Ty":
                        tyd = F.discr_map("ide::ty::Ty")
                        fnv = [v for v, n in tyd.items() if n == "Function"][0]
                        tg = [x for v, x in t2["targets"] if v == fnv]
                        if tg:
                            for s in f.blocks[tg[0]]["stmts"]:
                                pass
                            ok3 = True
    res.ob("Z3", "function-typed-local", "a local whose inferred type is a function type is tagged as a function (Local::ty is consulted and its Function variant selected)",
           ok3, where=hi.loc(), how="Local::ty + match on Ty::Function found: %s" % ok3)
    # ---- Z4
    dn = {v["name"]: v["place"]["l"] for v in enc.d["debug"] if not v["place"]["p"]}
    de = FL.Defs(enc)
    tok = [s for b, i, s in enc.stmts() if s.get("rv", {}).get("k") == "agg" and (s["rv"].get("adt") or "").endswith("SemanticToken")]
    res.floor("SemanticToken constructions in the encoder", len(tok), 1)

    def name_of(op):
        """debug name of the variable an operand is a (one-step) copy of"""
        pl = op_place(op)
        if pl is None or pl["p"]:
            return None
        l = pl["l"]
        for _ in range(8):
            cand = [n for n, loc in dn.items() if loc == l]
            if cand:
                return cand[0]
            dd = de.whole_defs(l)
            if len(dd) == 1 and dd[0][2] == "assign" and dd[0][3]["rv"]["k"] == "use":
                p2 = op_place(dd[0][3]["rv"]["op"])
                if p2 is None:
                    return None
                if p2["p"]:
                    # a field of a tuple/struct built in this function: continue with that component
                    if len(p2["p"]) == 1 and isinstance(p2["p"][0], dict) and "f" in p2["p"][0]:
                        d2 = de.whole_defs(p2["l"])
                        if len(d2) == 1 and d2[0][2] == "assign" and d2[0][3]["rv"]["k"] == "agg":
                            p3 = op_place(d2[0][3]["rv"]["ops"][p2["p"][0]["f"]])
                            if p3 is None or p3["p"]:
                                return None
                            l = p3["l"]
                            continue
                    return None
                l = p2["l"]
            else:
                return None
        return None

    def sub_of(op):
        o = de.origin_op(op)
        base = o
        while base.get("k") == "field":
            base = base["base"]
        if base.get("k") == "rv" and base["rv"]["k"] == "bin" and base["rv"]["op"] in ("SubWithOverflow", "Sub"):
            return (name_of(base["rv"]["a"]), name_of(base["rv"]["b"]))
        return None
    for s in tok:
        rv = s["rv"]
        fld = rv["fields"]
        got = {n: sub_of(rv["ops"][fld.index(n)]) for n in ("delta_line", "delta_start", "length")}
        want = {"delta_line": ("line", "prev_line"), "delta_start": ("start", "prev_start"), "length": ("end", "start")}
        res.ob("Z4", "relative-encoding", "each token is encoded as (line - prev_line, start - prev_start, end - start)", got == want,
               where=enc.loc(s["ln"]), how=str(got))
    # state update after the push, reset on new line
    upd = {}
    moved = []
    for b, i, s in enc.stmts():
        if s["k"] == "assign" and not s["place"]["p"]:
            for n in ("prev_line", "prev_start"):
                if s["place"]["l"] == dn.get(n):
                    rv = s["rv"]
                    src = None
                    if rv["k"] == "use" and "k" in rv["op"]:
                        src = "const %s" % rv["op"]["k"].get("bits")
                    elif rv["k"] == "use":
                        pl = op_place(rv["op"])
                        if pl["p"] and isinstance(pl["p"][-1], dict) and "f" in pl["p"][-1]:
                            dd = de.whole_defs(pl["l"])
                            if len(dd) == 1 and dd[0][2] == "assign" and dd[0][3]["rv"]["k"] == "agg":
                                src = name_of(dd[0][3]["rv"]["ops"][pl["p"][-1]["f"]])
                        else:
                            src = name_of(rv["op"])
                    upd.setdefault(n, set()).add(src)
                    if src is not None and not str(src).startswith("const"):
                        moved.append((n, b, s["ln"]))
    pushes = [b for b, t in enc.calls() if FL.short(callee(t) or "") == "Vec::push"]
    early = [(n, ln) for n, b, ln in moved if not any(enc.dominates(pb, b) and pb != b for pb in pushes)]
    res.ob("Z4", "state-moves-with-a-token", "the encoder's previous-token position advances only once a token has been pushed (a piece that is "
           "skipped - empty, or on a line past the end - must not become the reference point of the next token's deltas)",
           bool(pushes) and bool(moved) and not early, where=enc.loc(early[0][1]) if early else enc.loc(),
           how="position updates: %d, not after the push: %s" % (len(moved), early))
    res.ob("Z4", "state-update", "after each token prev_line := line and prev_start := start; prev_start is reset to 0 when the line changes",
           "line" in upd.get("prev_line", ()) and "start" in upd.get("prev_start", ()) and "const 0" in upd.get("prev_start", ()),
           where=enc.loc(), how=str({k: sorted(map(str, v)) for k, v in upd.items()}))
    # positions are converted through LineMap in both directions: writer and readers of its table use one coordinate system (C13/D10)
    from rules import c13 as _c13lm
    _c13lm.line_map_coordinates_agree(F, res, rule="Z5")
    legend_is_the_encoders_table(F, res)
    highlight_walks_the_tree(F, res)
    # the highlight ranges are computed on the analysis' text and encoded with the store's line map: one text
    _c13lm.analysis_gets_every_recorded_text(F, res, rule="Z7")
    _c13lm.last_text_wins(F, res, rule="Z7")
    from rules import c11 as _c11z
    _c11z.value_equality_rules(F, res, rule="Z11", rule2="Z11")   # a local is tagged from its inferred type: a result that compares equal although a type changed keeps the old tag
    # "(line, UTF-16 start, UTF-16 length)": the width table the columns are computed from (C14/U1) and the scans over it (C14/U3)
    from rules import c14 as _c14
    _c14.width_table(F, res, rule="Z9")
    _c14.scans(F, res, rule="Z9")
    # "a function-typed local is tagged as function": the tag is read off the inferred type, which an alias left in progress loses
    from rules import c09 as _c09
    _c09.scratch_stacks_are_balanced(F, res, rule="Z10")


def legend_is_the_encoders_table(F, res, rule="Z6"):
    """Z6: the encoder writes `TokenTypeIdx as u32`, an index into the table SEMANTIC_TOKEN_TYPES; the client decodes it with the
    legend of the initialize response. The two agree only if the legend is that table, whole and in order: the value of
    SemanticTokensLegend.token_types depends on no parameter of the function that builds it (not on the client's
    capabilities: a legend filtered by what the client lists shifts every index behind a dropped entry) and on no call that
    selects or reorders (filter, retain, sort, dedup, rev, skip, take)."""
    n = 0
    SELECT = ("filter", "filter_map", "retain", "sort", "sort_by", "sort_by_key", "sort_unstable", "dedup", "rev", "skip", "take", "take_while",
              "skip_while", "remove", "swap_remove", "truncate", "drain", "pop", "reverse")
    for p, f in sorted(F.fns.items()):
        if not p.startswith(("glas::", "<glas::")) or not f.blocks:
            continue
        d = None
        for b, i, s in f.stmts():
            rv = s.get("rv") or {}
            if rv.get("k") != "agg" or not (rv.get("adt") or "").endswith("SemanticTokensLegend"):
                continue
            d = d or FL.Defs(f)
            n += 1
            op = rv["ops"][rv["fields"].index("token_types")]
            dep = FL.depends(F, f, d, op, use_bb=b)
            sel = sorted(c for c in dep["calls"] if c.rsplit("::", 1)[-1] in SELECT)
            ok = not dep["args"] and not sel
            res.ob(rule, "legend/%s" % FL.short(p), "the token-type legend sent to the client is the encoder's table, whole and in order, whatever the client declared",
                   ok, where=f.loc(s.get("ln")), how="depends on parameters: %s; selecting/reordering calls: %s" % (sorted(dep["args"]), sel))
    res.floor("places that build a SemanticTokensLegend", n, 1)


def highlight_walks_the_tree(F, res, rule="Z8"):
    """Z8: "exactly the identifiers of the file": highlight has to look at every token. rowan's SyntaxToken::next_token /
    prev_token ask the neighbouring *element* for its first token and give up when that element is a node without tokens -
    and the parser does build token-less nodes (an `import` with nothing behind it, `const = 1`, `import m as`). So the
    enumeration must be a walk of the tree (descendants_with_tokens / preorder_with_tokens), never a chain of next_token()
    calls: with the chain, everything behind the first empty node was missing from textDocument/semanticTokens/full."""
    p = "ide::ide::semantic_highlighting::highlight"
    units = [F.fn(p)] + [F.fns[c] for c in F.closures_of(p)]
    step, walk = [], []
    for u in units:
        for b, t in u.calls():
            c = FL.short(callee(t) or callee_def(t) or "")
            last = c.rsplit("::", 1)[-1]
            if last in ("next_token", "prev_token", "next_sibling_or_token", "prev_sibling_or_token") and "Syntax" in c:
                step.append("%s line %d" % (last, t["ln"]))
            if last in ("descendants_with_tokens", "preorder_with_tokens"):
                walk.append(t["ln"])
        # a function item passed as the successor of iter::successors
        for op in FA.all_operands(u) if hasattr(FA, "all_operands") else []:
            k = op.get("k") if isinstance(op, dict) else None
            if k and "fn" in k and (k["fn"].get("def") or "").rsplit("::", 1)[-1] in ("next_token", "prev_token"):
                step.append("fn item %s" % k["fn"]["def"])
    res.ob(rule, "highlight/tree-walk", "highlight enumerates the tokens of the file by walking the tree, not by stepping from token to token (which "
           "ends at the first node without tokens)", bool(walk) and not step, where=units[0].loc(),
           how="tree walks at lines %s; token-to-token steps: %s" % (walk, step))
