"""C03 — A syntax error inside one definition does not disturb the others."""
from lib import pcache
from lib import flow as FL
from lib.facts import callee
from rules import parser_model as PM

META = {
    "level": "other",
    "technique": "static analysis: abstract interpretation of the parser's MIR over token-kind sets (closing-brace ownership, restart set, loop exits)",
    "rule": "B1 closing-brace ownership: no consumption site other than a brace owner's own expect(`}`) can consume "
            "`}` while a `{..}` region is open on the call stack; B2 the top-level dispatcher restarts at every "
            "definition keyword and its fallback consumes exactly one token; B3 every brace owner's loop stops at "
            "`}` and at end of input; B4 no site that can run directly after a `}` consumed outside every brace region "
            "(before the parser is back at the dispatcher) can consume a token that starts a definition (`@`, `pub`, "
            "`opaque` or a dispatch keyword, all read from statement()/attributes()); B5 nor report an error there (the "
            "error would carry the range of the next definition's first token). One obligation per consumption "
            "site / owner / keyword. B6 every node a parser function opens is finished on every path (marks balanced): an open node left behind would swallow the definitions that follow.",
    "explanation": "For damage that keeps a body's braces balanced and adds no opener, the only way the parser can "
                   "touch a token of a following definition is that a construct nested in the body consumes the `}` of "
                   "an enclosing construct. Engine P knows, for every call of bump/bump_with_error/eat/expect in every "
                   "reachable context, the set of kinds the consumed token may have and whether a brace owner's region "
                   "is open on the stack; B1 is decided from that for all token sequences. When the body's owner gives up "
                   "early (a definition keyword inside the body), the rest of the body is parsed as top-level items and its "
                   "final `}` arrives with no region open; engine P marks that state and B4 requires that whatever consumes "
                   "the next token is the dispatcher. This decides closing-brace ownership and the restart after a stray "
                   "closer (necessary conditions), not the behaviour. B7 = C14 U12 (engine U: a string token that ends early leaks its closing quote into the following definitions). B8 = C02 P2.",
    "not_decided": "that every damage is reported at all; error ranges other than 'not on the next definition's first token after a stray closer'; "
                   "isolation under damage that adds openers.",
    "trusted_base": ["rustc MIR", "engine P's leaf-primitive model (checked by C02/M)"],
    "assumptions": ["look-ahead beyond the current token is arbitrary"],
}

OWNERS_FLOOR = 4


def run(F, res, tier):
    _lv = pcache.results(F).get("loop_viol") or {}
    res.ob("B8", "parser-loops-progress", "every loop of the parser consumes a token per iteration (C02/P2): one token in one body that a list loop accepts and its element parser does not consume takes the whole file down with it", not _lv,
           where="crates/syntax/src/parser.rs", how="loops that can go round without consumption: %s" % sorted(_lv)[:6] if _lv else "all loops progress")
    from rules import c14 as _c14u
    _c14u.text_positions_are_counted_in_bytes(F, res, rule="B7", crates=('syntax',))   # engine U: a string token that ends early turns its closing quote into an opener: the damage leaves the definition
    R = pcache.results(F)
    res.analysed.update({"functions": len(R["functions"]), "contexts": R["contexts"],
                         "consumption_sites": len(R["consume_sites"])})
    owners = {}
    for key, v in sorted(R["consume_sites"].items()):
        name = v["fn"].rsplit("::", 1)[-1]
        own = v["callee"] in ("eat", "expect") and v["karg"] == "R_BRACE" and "R_BRACE" in v["open_kinds"]
        if own:
            owners[v["fn"]] = v
        stolen = "R_BRACE" in v["stolen"]
        res.ob("B1", "%s/%s%s/%s" % (name, v["callee"], ("(" + v["karg"] + ")") if v["karg"] else "", key.rsplit("|", 1)[-1]),
               "this consumption never takes a `}` that belongs to an enclosing `{..}` region",
               not stolen, where="crates/syntax/src/parser.rs:%d" % v["line"],
               how=("kinds consumed inside braces: %s" % (sorted(v["brace_kinds"])[:6] + (["…"] if len(v["brace_kinds"]) > 6 else [])))
               if not stolen else "may consume `}` while a brace region is open; call chain %s" % v["ctx"],
               nontrivial=bool(v["brace_kinds"]))
    res.floor("consumption sites in grammar functions", len(R["consume_sites"]), 120)
    res.floor("brace owners (functions that close a `{..}` region they opened)", len(owners), OWNERS_FLOOR)

    # ---- B3: each owner's closing expect is dominated by a loop whose exits test `}` / eof
    for fnp, v in sorted(owners.items()):
        fn = F.fn(fnp)
        d = FL.Defs(fn)
        ok_rb, ok_eof = False, False
        # the block of the closing expect(R_BRACE)
        close_bbs = []
        for b, t in fn.calls():
            if callee(t) in (PM.P + "expect", PM.P + "eat") and FL.kind_of_operand(fn, d, t["args"][1]) == "R_BRACE":
                close_bbs.append(b)
        heads = {h for _, h in fn.back_edges()}
        for tail, h in fn.back_edges():
            body = fn.natural_loop(tail, h)
            # exits of this loop that can reach a closing expect
            for b in body:
                for s in fn.succ(b):
                    if s not in body and any(fn.can_reach(s, [c]) for c in close_bbs):
                        # what is tested at b?
                        t = fn.term(b)
                        if t["k"] != "switch":
                            continue
                        from lib.facts import op_local
                        l = op_local(t["op"])
                        o = d.origin(l) if l is not None else {"k": "?"}
                        if o.get("k") == "call":
                            c = callee(o["t"])
                            if c == PM.P + "at" and FL.kind_of_operand(fn, d, o["t"]["args"][1]) == "R_BRACE":
                                ok_rb = True
                            if c == PM.P + "eof":
                                ok_eof = True
        res.ob("B3", "%s/loop-stops-at-closer" % fnp.rsplit("::", 1)[-1],
               "the item loop of brace owner %s exits on at(`}`) and on eof() before each iteration" % fnp.rsplit("::", 1)[-1],
               ok_rb and ok_eof, where=fn.loc(), how="exit on `}`: %s, exit on eof: %s" % (ok_rb, ok_eof))

    # ---- B2: statement() dispatch
    st = F.fn("syntax::parser::statement")
    d = FL.Defs(st)
    # the switch on discriminant of nth(0)
    dispatch = None
    for b in sorted(st.reachable()):
        t = st.term(b)
        if t["k"] == "switch":
            from lib.facts import op_local
            l = op_local(t["op"])
            o = d.origin(l) if l is not None else {}
            if o.get("k") == "rv" and o["rv"]["k"] == "discr":
                src = d.origin_place(o["rv"]["place"])
                if src.get("k") == "call" and callee(src["t"]) == PM.P + "nth":
                    dispatch = (b, t)
                    break
    if dispatch is None:
        res.anchor_missing("B2", "match on p.nth(0) in syntax::parser::statement")
        return
    b, t = dispatch
    dm = F.discr_map(PM.PA.replace("parser::Parser", "kind::SyntaxKind"))
    arms = {dm[v]: tgt for v, tgt in t["targets"]}
    want = {"CONST_KW": "module_const", "FN_KW": "function", "IMPORT_KW": "import", "TYPE_KW": "custom_type",
            "OPAQUE_KW": "custom_type"}
    for kw, callee_name in sorted(want.items()):
        tgt = arms.get(kw)
        ok = False
        if tgt is not None:
            # the arm calls the item parser before returning
            for bb2, t2 in st.calls():
                if callee(t2) == "syntax::parser::" + callee_name and st.can_reach(tgt, [bb2]) :
                    ok = True
        res.ob("B2", "statement/dispatch/%s" % kw, "statement() restarts a definition at `%s` (dispatches to %s)" % (kw, callee_name),
               ok, where=st.loc(t["ln"]), how="arm present" if ok else "no arm for %s" % kw)
    # fallback: exactly one token consumed, guarded by !eof
    other = t["otherwise"]
    bumps = [bb2 for bb2, t2 in st.calls() if callee(t2) == PM.P + "bump" and st.can_reach(other, [bb2])]
    guarded = False
    for bb2 in bumps:
        for g in FL.gates(F, st, [bb2], d):
            if g.get("callee") == PM.P + "eof" and g["allowed"] == [False]:
                guarded = True
    loops_in_fallback = any(h for _, h in st.back_edges())
    res.ob("B2", "statement/fallback-consumes-one", "the fallback arm of statement() consumes exactly one token (guarded by !eof), "
           "so the top-level loop resynchronises at the next definition keyword",
           len(bumps) == 1 and guarded and not loops_in_fallback, where=st.loc(),
           how="%d bump site(s) in the fallback, eof-guarded: %s" % (len(bumps), guarded))
    np = sorted(set(R.get("nonprogress_kinds", {}).get("syntax::parser::statement", [])) - {"EOF"})
    res.ob("B2", "statement/always-consumes", "whatever the current token is (end of input aside), statement() consumes at least one token, so the "
           "top-level loop can neither stall on a token nor leave it to be re-read forever", not np, where=st.loc(),
           how="engine P: no context of statement() returns without progress" if not np else "returns without consuming when the token is %s" % np)
    # pub / attributes are optional prefixes handled before the dispatch
    pre = [callee(t2) for bb2, t2 in st.calls() if st.dominates(bb2, b)]
    res.ob("B2", "statement/prefixes", "attributes and `pub` are consumed before the dispatch, so `pub fn`/`@external fn` restart too",
           "syntax::parser::attributes" in pre and PM.P + "eat" in pre, where=st.loc(), how="calls before dispatch: %s" % [p.rsplit("::", 1)[-1] for p in pre if p])

    # ---- B4: a skipping loop that runs on after a stray `}` stops at the next definition's first token
    defstart = set(arms)                       # kinds statement() dispatches to a definition parser
    for bb2, t2 in st.calls():
        if callee(t2) == PM.P + "eat" and st.dominates(bb2, b):
            kk = FL.kind_of_operand(st, d, t2["args"][1])
            if kk:
                defstart.add(kk)               # optional `pub` prefix
    at_fn = F.fn("syntax::parser::attributes")
    da = FL.Defs(at_fn)
    for bb2, t2 in at_fn.calls():
        if callee(t2) == PM.P + "at":
            kk = FL.kind_of_operand(at_fn, da, t2["args"][1])
            if kk:
                defstart.add(kk)               # attribute prefix `@`
    res.floor("token kinds that start a top-level definition (dispatch arms, `pub`, `@`)", len(defstart), 7)
    res.analysed["definition_start_kinds"] = sorted(defstart)
    fb = [v for k2, v in R["consume_sites"].items() if v["fn"] == "syntax::parser::statement" and v["callee"] == "bump"]
    res.ob("B4", "statement/fallback-takes-stray-closer",
           "control: the dispatcher's fallback is seen consuming a `}` that no open region owns (the stray-closer tracking is alive)",
           any("R_BRACE" in v["kinds"] for v in fb), where=st.loc(), how="fallback bump consumes %d kinds incl. `}`" % (len(fb[0]["kinds"]) if fb else 0))
    n_after = 0
    for key, v in sorted(R["consume_sites"].items()):
        if not v["after_stray"]:
            continue
        n_after += 1
        name = v["fn"].rsplit("::", 1)[-1]
        bad = sorted(set(v["after_stray"]) & defstart)
        res.ob("B4", "%s/%s%s/%s" % (name, v["callee"], ("(" + v["karg"] + ")") if v["karg"] else "", key.rsplit("|", 1)[-1]),
               "directly after a `}` consumed outside every brace region (the end of a damaged body), and before the parser "
               "is back at the dispatcher, this site never consumes a token that starts a definition",
               not bad, where="crates/syntax/src/parser.rs:%d" % v["line"],
               how=("may consume %d kinds there, none of %s" % (len(v["after_stray"]), sorted(defstart))) if not bad else
               "consumes %s of the following definition; call chain %s" % (bad, v["stray_ctx"]))
    res.analysed["sites_running_after_a_stray_closer"] = n_after
    # ---- B5: no error is attached to the first token of the following definition
    n_err = 0
    for key, v in sorted(R.get("stray_err_sites", {}).items()):
        n_err += 1
        name = v["fn"].rsplit("::", 1)[-1]
        bad = sorted(set(v["kinds"]) & defstart)
        res.ob("B5", "%s/%s%s/%s" % (name, v["callee"], ("(" + v["karg"] + ")") if v["karg"] else "", key.rsplit("|", 1)[-1]),
               "directly after a `}` consumed outside every brace region, and before the parser is back at the dispatcher, this "
               "site never reports an error while the current token starts a definition (Parser::error uses the current "
               "token's range: the error would lie inside the untouched definition)",
               not bad, where="crates/syntax/src/parser.rs:%d" % v["line"],
               how=("may report errors at %d kinds there, none of them a definition start" % len(v["kinds"])) if not bad else
               "reports an error at %s, the first token of the following definition; call chain %s" % (bad, v["ctx"]))
    res.analysed["error_sites_running_after_a_stray_closer"] = n_err
    # ---- B6: nodes are closed where they were opened. An Open event without its Close makes every later Close finish the wrong
    # node: all following definitions end up inside the damaged one (and the builder asserts).
    leaks = R["leak_sites"]
    res.ob("B6", "marks-balanced", "every node a parser function opens is finished (or handed on) on every path, so an error inside one definition "
           "cannot leave a node open across the definitions that follow (decided per mark in C02/P7)", not leaks,
           where="crates/syntax/src/parser.rs:%s" % (sorted(leaks.values(), key=lambda x: str(x.get("line")))[0].get("line") if leaks else ""),
           how="%d start_node / start_node_before sites, unbalanced: %s" % (len(R["marks"]), sorted(leaks)[:4]))


def thorough(F, res):
    from lib import pcache as _pc
    _pc.crosscheck(F, res)
