// glasfacts: rustc_private driver that dumps structured facts (ADTs, consts,
// impls, attributes, MIR with resolved callees) of the glas workspace crates as
// JSON, one file per compilation unit. Injected with RUSTC_WORKSPACE_WRAPPER.
#![feature(rustc_private)]
#![allow(clippy::all)]

extern crate rustc_abi;
extern crate rustc_ast;
extern crate rustc_ast_pretty;
extern crate rustc_driver;
extern crate rustc_hir;
extern crate rustc_interface;
extern crate rustc_middle;
extern crate rustc_session;
extern crate rustc_span;

use std::fmt::Write as _;

use rustc_driver::Compilation;
use rustc_hir::def::DefKind;
use rustc_hir::def_id::{DefId, LocalDefId};
use rustc_middle::mir::{
    self, AggregateKind, BasicBlockData, Body, Const, ConstValue, Operand, Place, PlaceElem,
    Rvalue, StatementKind, TerminatorKind, UnwindAction,
};
use rustc_middle::ty::print::{with_crate_prefix, with_no_trimmed_paths, with_no_visible_paths};
use rustc_middle::ty::{self, Instance, Ty, TyCtxt, TypingEnv};
use rustc_span::Span;

const WORKSPACE: &[&str] = &["syntax", "ide", "glas", "gleam_interop"];

// ------------------------------------------------------------------ JSON ----

enum J {
    Null,
    Bool(bool),
    Num(String),
    Str(String),
    Arr(Vec<J>),
    Obj(Vec<(&'static str, J)>),
}

fn jn<T: std::fmt::Display>(n: T) -> J {
    J::Num(n.to_string())
}
fn js<T: Into<String>>(s: T) -> J {
    J::Str(s.into())
}

impl J {
    fn write(&self, out: &mut String) {
        match self {
            J::Null => out.push_str("null"),
            J::Bool(b) => out.push_str(if *b { "true" } else { "false" }),
            J::Num(n) => out.push_str(n),
            J::Str(s) => {
                out.push('"');
                for c in s.chars() {
                    match c {
                        '"' => out.push_str("\\\""),
                        '\\' => out.push_str("\\\\"),
                        '\n' => out.push_str("\\n"),
                        '\r' => out.push_str("\\r"),
                        '\t' => out.push_str("\\t"),
                        c if (c as u32) < 0x20 => {
                            let _ = write!(out, "\\u{:04x}", c as u32);
                        }
                        c => out.push(c),
                    }
                }
                out.push('"');
            }
            J::Arr(v) => {
                out.push('[');
                for (i, x) in v.iter().enumerate() {
                    if i > 0 {
                        out.push(',');
                    }
                    x.write(out);
                }
                out.push(']');
            }
            J::Obj(v) => {
                out.push('{');
                for (i, (k, x)) in v.iter().enumerate() {
                    if i > 0 {
                        out.push(',');
                    }
                    out.push('"');
                    out.push_str(k);
                    out.push_str("\":");
                    x.write(out);
                }
                out.push('}');
            }
        }
    }
}

// ------------------------------------------------------------- naming ----

/// Remove generic-argument lists that contain only lifetimes: `Parser::<'i>::bump`
/// -> `Parser::bump`, `Parser<'_>` -> `Parser`.
fn strip_lifetime_args(s: &str) -> String {
    let b: Vec<char> = s.chars().collect();
    let mut out = String::with_capacity(s.len());
    let mut i = 0;
    while i < b.len() {
        let (start, skip) = if b[i] == ':' && i + 3 < b.len() && b[i + 1] == ':' && b[i + 2] == '<' {
            (i + 3, true)
        } else if b[i] == '<' {
            (i + 1, true)
        } else {
            (0, false)
        };
        if skip && start < b.len() && b[start] == '\'' {
            // scan to the matching '>' ; accept only lifetimes, commas, spaces
            let mut j = start;
            let mut ok = true;
            while j < b.len() && b[j] != '>' {
                let c = b[j];
                if !(c == '\'' || c == ',' || c == ' ' || c == '_' || c.is_alphanumeric()) {
                    ok = false;
                    break;
                }
                j += 1;
            }
            // every comma-separated piece must start with a tick
            if ok && j < b.len() {
                let inner: String = b[start..j].iter().collect();
                if inner.split(',').all(|p| p.trim().starts_with('\'')) {
                    i = j + 1;
                    continue;
                }
            }
        }
        out.push(b[i]);
        i += 1;
    }
    out
}

/// `a::b::<impl c::T>::m` -> `c::T::m` (inherent impls only).
fn unwrap_inherent_impl(s: &str) -> String {
    if let Some(pos) = s.find("::<impl ") {
        let rest = &s[pos + 8..];
        let mut depth = 1i32;
        for (k, c) in rest.char_indices() {
            match c {
                '<' => depth += 1,
                '>' => {
                    depth -= 1;
                    if depth == 0 {
                        let inner = &rest[..k];
                        if inner.contains(" for ") {
                            return s.to_string();
                        }
                        return format!("{}{}", inner, &rest[k + 1..]);
                    }
                }
                _ => {}
            }
        }
    }
    s.to_string()
}

struct Cx<'tcx> {
    tcx: TyCtxt<'tcx>,
    krate: String,
}

impl<'tcx> Cx<'tcx> {
    fn fix(&self, s: String) -> String {
        // `crate::` -> `<cratename>::`
        let s = s.replace("crate::", &format!("{}::", self.krate));
        strip_lifetime_args(&s)
    }

    fn fix_path(&self, s: String) -> String {
        unwrap_inherent_impl(&self.fix(s))
    }

    fn path(&self, did: DefId) -> String {
        let s = with_no_visible_paths!(with_no_trimmed_paths!(with_crate_prefix!(self.tcx.def_path_str(did))));
        self.fix_path(s)
    }

    fn path_args(&self, did: DefId, args: ty::GenericArgsRef<'tcx>) -> String {
        let s =
            with_no_visible_paths!(with_no_trimmed_paths!(with_crate_prefix!(self.tcx.def_path_str_with_args(did, args))));
        self.fix(s)
    }

    fn ty(&self, t: Ty<'tcx>) -> String {
        let s = with_no_visible_paths!(with_no_trimmed_paths!(with_crate_prefix!(t.to_string())));
        self.fix(s)
    }

    fn span(&self, sp: Span) -> J {
        let sm = self.tcx.sess.source_map();
        let lo = sm.lookup_char_pos(sp.lo());
        let hi = sm.lookup_char_pos(sp.hi());
        let file = match &lo.file.name {
            rustc_span::FileName::Real(r) => match r.local_path() {
                Some(p) => p.to_string_lossy().to_string(),
                None => format!("{:?}", r),
            },
            other => format!("{:?}", other),
        };
        J::Obj(vec![
            ("file", js(file)),
            ("lo", jn(lo.line)),
            ("hi", jn(hi.line)),
            ("exp", J::Bool(sp.from_expansion())),
        ])
    }

    fn line(&self, sp: Span) -> usize {
        // line of the outermost call site, so a macro body line is never reported
        let sp = sp.source_callsite();
        self.tcx.sess.source_map().lookup_char_pos(sp.lo()).line
    }

    fn macros(&self, sp: Span) -> J {
        let mut v = Vec::new();
        for e in sp.macro_backtrace() {
            v.push(js(e.kind.descr().to_string()));
        }
        J::Arr(v)
    }
}

// ---------------------------------------------------------------- MIR ----

struct BodyCx<'a, 'tcx> {
    cx: &'a Cx<'tcx>,
    body: &'a Body<'tcx>,
    owner: DefId,
    tenv: TypingEnv<'tcx>,
}

impl<'a, 'tcx> BodyCx<'a, 'tcx> {
    fn place(&self, p: &Place<'tcx>) -> J {
        let tcx = self.cx.tcx;
        let mut proj = Vec::new();
        let mut pty = mir::PlaceTy::from_ty(self.body.local_decls[p.local].ty);
        for elem in p.projection.iter() {
            let j = match elem {
                PlaceElem::Deref => js("*"),
                PlaceElem::Field(f, _) => {
                    let mut o = vec![("f", jn(f.as_usize()))];
                    if let ty::Adt(adt, _) = pty.ty.kind() {
                        let vi = pty.variant_index.unwrap_or(rustc_abi::FIRST_VARIANT);
                        if vi.as_usize() < adt.variants().len() {
                            let v = adt.variant(vi);
                            if f.as_usize() < v.fields.len() {
                                o.push(("n", js(v.fields[f].name.to_string())));
                            }
                        }
                        o.push(("adt", js(self.cx.path(adt.did()))));
                    }
                    J::Obj(o)
                }
                PlaceElem::Index(l) => J::Obj(vec![("i", jn(l.as_usize()))]),
                PlaceElem::ConstantIndex { offset, from_end, .. } => {
                    J::Obj(vec![("ci", jn(offset)), ("from_end", J::Bool(from_end))])
                }
                PlaceElem::Downcast(name, idx) => J::Obj(vec![
                    ("dc", jn(idx.as_usize())),
                    ("n", js(name.map(|s| s.to_string()).unwrap_or_default())),
                ]),
                other => J::Obj(vec![("o", js(format!("{:?}", other)))]),
            };
            proj.push(j);
            pty = pty.projection_ty(tcx, elem);
        }
        J::Obj(vec![("l", jn(p.local.as_usize())), ("p", J::Arr(proj))])
    }

    fn scalar_int(&self, c: &Const<'tcx>) -> Option<u128> {
        let si = c.try_eval_scalar_int(self.cx.tcx, self.tenv)?;
        Some(si.to_bits(si.size()))
    }

    fn fn_info(&self, did: DefId, args: ty::GenericArgsRef<'tcx>) -> J {
        let tcx = self.cx.tcx;
        let mut o = vec![
            ("def", js(self.cx.path(did))),
            ("full", js(self.cx.path_args(did, args))),
        ];
        let mut a = Vec::new();
        for ga in args.iter() {
            if let Some(t) = ga.as_type() {
                a.push(js(self.cx.ty(t)));
            }
        }
        o.push(("targs", J::Arr(a)));
        if let Some(tr) = tcx.trait_of_assoc(did) {
            o.push(("trait", js(self.cx.path(tr))));
        }
        match Instance::try_resolve(tcx, self.tenv, did, args) {
            Ok(Some(inst)) => {
                o.push(("res", js(self.cx.path(inst.def_id()))));
                let k = match inst.def {
                    ty::InstanceKind::Item(_) => "item",
                    ty::InstanceKind::Virtual(..) => "virtual",
                    ty::InstanceKind::Intrinsic(_) => "intrinsic",
                    ty::InstanceKind::ClosureOnceShim { .. } => "closure_once",
                    ty::InstanceKind::FnPtrShim(..) => "fnptr_shim",
                    ty::InstanceKind::DropGlue(..) => "drop_glue",
                    ty::InstanceKind::CloneShim(..) => "clone_shim",
                    ty::InstanceKind::ReifyShim(..) => "reify",
                    ty::InstanceKind::VTableShim(..) => "vtable_shim",
                    _ => "other",
                };
                o.push(("resk", js(k)));
                o.push(("local", J::Bool(inst.def_id().is_local())));
            }
            _ => {
                o.push(("res", J::Null));
            }
        }
        J::Obj(o)
    }

    fn constant(&self, c: &mir::ConstOperand<'tcx>) -> J {
        let tcx = self.cx.tcx;
        let ty = c.const_.ty();
        let mut o = vec![("ty", js(self.cx.ty(ty)))];
        if let ty::FnDef(did, args) = ty.kind() {
            o.push(("fn", self.fn_info(*did, args)));
            return J::Obj(o);
        }
        if let Const::Unevaluated(uv, _) = c.const_ {
            if let Some(p) = uv.promoted {
                o.push(("promoted", jn(p.as_usize())));
                o.push(("in", js(self.cx.path(uv.def))));
                return J::Obj(o);
            }
            o.push(("def", js(self.cx.path(uv.def))));
        }
        if let Some(bits) = self.scalar_int(&c.const_) {
            o.push(("bits", jn(bits)));
            if let ty::Adt(adt, _) = ty.kind() {
                if adt.is_enum() {
                    for (vi, d) in adt.discriminants(tcx) {
                        if d.val == bits {
                            o.push(("variant", js(adt.variant(vi).name.to_string())));
                        }
                    }
                }
            }
            return J::Obj(o);
        }
        match c.const_.eval(tcx, self.tenv, c.span) {
            Ok(ConstValue::ZeroSized) => o.push(("zst", J::Bool(true))),
            Ok(v @ ConstValue::Slice { .. }) => {
                if let ty::Ref(_, inner, _) = ty.kind() {
                    if inner.is_str() {
                        if let Some(b) = v.try_get_slice_bytes_for_diagnostics(tcx) {
                            o.push(("str", js(String::from_utf8_lossy(b).to_string())));
                        }
                    }
                }
            }
            Ok(other) => o.push(("text", js(format!("{:?}", other)))),
            Err(_) => o.push(("text", js(format!("{:?}", c.const_)))),
        }
        J::Obj(o)
    }

    fn operand(&self, op: &Operand<'tcx>) -> J {
        match op {
            Operand::Copy(p) => J::Obj(vec![("cp", self.place(p))]),
            Operand::Move(p) => J::Obj(vec![("mv", self.place(p))]),
            Operand::Constant(c) => J::Obj(vec![("k", self.constant(c))]),
            #[allow(unreachable_patterns)]
            other => J::Obj(vec![("o", js(format!("{:?}", other)))]),
        }
    }

    fn rvalue(&self, rv: &Rvalue<'tcx>) -> J {
        match rv {
            Rvalue::Use(op, ..) => J::Obj(vec![("k", js("use")), ("op", self.operand(op))]),
            Rvalue::CopyForDeref(p) => J::Obj(vec![
                ("k", js("use")),
                ("op", J::Obj(vec![("cp", self.place(p))])),
            ]),
            Rvalue::Ref(_, bk, p) => J::Obj(vec![
                ("k", js("ref")),
                ("mut", J::Bool(matches!(bk, mir::BorrowKind::Mut { .. }))),
                ("place", self.place(p)),
            ]),
            Rvalue::RawPtr(_, p) => J::Obj(vec![("k", js("rawptr")), ("place", self.place(p))]),
            Rvalue::Cast(kind, op, ty) => J::Obj(vec![
                ("k", js("cast")),
                ("ck", js(format!("{:?}", kind))),
                ("op", self.operand(op)),
                ("ty", js(self.cx.ty(*ty))),
            ]),
            Rvalue::BinaryOp(op, ab) => J::Obj(vec![
                ("k", js("bin")),
                ("op", js(format!("{:?}", op))),
                ("a", self.operand(&ab.0)),
                ("b", self.operand(&ab.1)),
            ]),
            Rvalue::UnaryOp(op, a) => J::Obj(vec![
                ("k", js("un")),
                ("op", js(format!("{:?}", op))),
                ("a", self.operand(a)),
            ]),
            Rvalue::Discriminant(p) => {
                let t = p.ty(self.body, self.cx.tcx).ty;
                J::Obj(vec![
                    ("k", js("discr")),
                    ("place", self.place(p)),
                    ("of", js(self.cx.ty(t))),
                ])
            }
            Rvalue::Repeat(op, n) => J::Obj(vec![
                ("k", js("repeat")),
                ("op", self.operand(op)),
                ("n", js(format!("{:?}", n))),
            ]),
            Rvalue::Aggregate(kind, ops) => {
                let mut o = vec![("k", js("agg"))];
                match &**kind {
                    AggregateKind::Array(t) => {
                        o.push(("agg", js("array")));
                        o.push(("elem", js(self.cx.ty(*t))));
                    }
                    AggregateKind::Tuple => o.push(("agg", js("tuple"))),
                    AggregateKind::Adt(did, vi, _, _, active) => {
                        o.push(("agg", js("adt")));
                        o.push(("adt", js(self.cx.path(*did))));
                        let adt = self.cx.tcx.adt_def(*did);
                        let v = adt.variant(*vi);
                        o.push(("variant", js(v.name.to_string())));
                        o.push(("vi", jn(vi.as_usize())));
                        let names: Vec<J> = match active {
                            Some(f) => vec![js(v.fields[*f].name.to_string())],
                            None => v.fields.iter().map(|f| js(f.name.to_string())).collect(),
                        };
                        o.push(("fields", J::Arr(names)));
                    }
                    AggregateKind::Closure(did, _) => {
                        o.push(("agg", js("closure")));
                        o.push(("closure", js(self.cx.path(*did))));
                    }
                    AggregateKind::Coroutine(did, _) => {
                        o.push(("agg", js("coroutine")));
                        o.push(("closure", js(self.cx.path(*did))));
                    }
                    AggregateKind::CoroutineClosure(did, _) => {
                        o.push(("agg", js("coroutine_closure")));
                        o.push(("closure", js(self.cx.path(*did))));
                    }
                    AggregateKind::RawPtr(..) => o.push(("agg", js("rawptr"))),
                }
                o.push(("ops", J::Arr(ops.iter().map(|x| self.operand(x)).collect())));
                J::Obj(o)
            }
            Rvalue::ThreadLocalRef(did) => {
                J::Obj(vec![("k", js("tls")), ("def", js(self.cx.path(*did)))])
            }
            other => J::Obj(vec![("k", js("other")), ("text", js(format!("{:?}", other)))]),
        }
    }

    fn unwind(&self, u: &UnwindAction) -> J {
        match u {
            UnwindAction::Cleanup(bb) => jn(bb.as_usize()),
            _ => J::Null,
        }
    }

    fn block(&self, bb: &BasicBlockData<'tcx>) -> J {
        let mut stmts = Vec::new();
        for st in &bb.statements {
            let sp = st.source_info.span;
            match &st.kind {
                StatementKind::Assign(b) => {
                    let (place, rv) = &**b;
                    stmts.push(J::Obj(vec![
                        ("k", js("assign")),
                        ("place", self.place(place)),
                        ("rv", self.rvalue(rv)),
                        ("ln", jn(self.cx.line(sp))),
                        ("exp", J::Bool(sp.from_expansion())),
                    ]));
                }
                StatementKind::SetDiscriminant { place, variant_index } => {
                    stmts.push(J::Obj(vec![
                        ("k", js("setdiscr")),
                        ("place", self.place(place)),
                        ("vi", jn(variant_index.as_usize())),
                        ("ln", jn(self.cx.line(sp))),
                    ]));
                }
                StatementKind::StorageDead(l) => {
                    stmts.push(J::Obj(vec![("k", js("dead")), ("l", jn(l.as_usize()))]));
                }
                StatementKind::StorageLive(l) => {
                    stmts.push(J::Obj(vec![("k", js("live")), ("l", jn(l.as_usize()))]));
                }
                _ => {}
            }
        }
        let term = bb.terminator();
        let sp = term.source_info.span;
        let mut t: Vec<(&'static str, J)> = Vec::new();
        match &term.kind {
            TerminatorKind::Goto { target } => {
                t.push(("k", js("goto")));
                t.push(("target", jn(target.as_usize())));
            }
            TerminatorKind::SwitchInt { discr, targets } => {
                t.push(("k", js("switch")));
                t.push(("op", self.operand(discr)));
                t.push(("ty", js(self.cx.ty(discr.ty(self.body, self.cx.tcx)))));
                let mut v = Vec::new();
                for (val, bb) in targets.iter() {
                    v.push(J::Arr(vec![jn(val), jn(bb.as_usize())]));
                }
                t.push(("targets", J::Arr(v)));
                t.push(("otherwise", jn(targets.otherwise().as_usize())));
            }
            TerminatorKind::UnwindResume => t.push(("k", js("resume"))),
            TerminatorKind::UnwindTerminate(_) => t.push(("k", js("terminate"))),
            TerminatorKind::Return => t.push(("k", js("return"))),
            TerminatorKind::Unreachable => t.push(("k", js("unreachable"))),
            TerminatorKind::Drop { place, target, unwind, .. } => {
                t.push(("k", js("drop")));
                t.push(("place", self.place(place)));
                t.push(("pty", js(self.cx.ty(place.ty(self.body, self.cx.tcx).ty))));
                t.push(("target", jn(target.as_usize())));
                t.push(("unwind", self.unwind(unwind)));
            }
            TerminatorKind::Call { func, args, destination, target, unwind, fn_span, .. } => {
                t.push(("k", js("call")));
                match func {
                    Operand::Constant(c) => match c.const_.ty().kind() {
                        ty::FnDef(did, a) => t.push(("fn", self.fn_info(*did, a))),
                        _ => t.push(("fnop", self.operand(func))),
                    },
                    _ => {
                        t.push(("fnop", self.operand(func)));
                        t.push(("fnty", js(self.cx.ty(func.ty(self.body, self.cx.tcx)))));
                    }
                }
                t.push(("args", J::Arr(args.iter().map(|a| self.operand(&a.node)).collect())));
                t.push(("dest", self.place(destination)));
                t.push((
                    "dty",
                    js(self.cx.ty(destination.ty(self.body, self.cx.tcx).ty)),
                ));
                t.push(("target", target.map(|b| jn(b.as_usize())).unwrap_or(J::Null)));
                t.push(("unwind", self.unwind(unwind)));
                t.push(("fnexp", J::Bool(fn_span.from_expansion())));
            }
            TerminatorKind::TailCall { .. } => t.push(("k", js("tailcall"))),
            TerminatorKind::Assert { cond, expected, msg, target, unwind } => {
                t.push(("k", js("assert")));
                t.push(("cond", self.operand(cond)));
                t.push(("expected", J::Bool(*expected)));
                let m = format!("{:?}", msg);
                let kind = m.split(|c: char| !c.is_alphanumeric()).next().unwrap_or("").to_string();
                t.push(("msg", js(kind)));
                t.push(("target", jn(target.as_usize())));
                t.push(("unwind", self.unwind(unwind)));
            }
            TerminatorKind::Yield { resume, drop, .. } => {
                t.push(("k", js("yield")));
                t.push(("target", jn(resume.as_usize())));
                t.push(("drop", drop.map(|b| jn(b.as_usize())).unwrap_or(J::Null)));
            }
            TerminatorKind::CoroutineDrop => t.push(("k", js("coroutine_drop"))),
            TerminatorKind::FalseEdge { real_target, .. } => {
                t.push(("k", js("goto")));
                t.push(("target", jn(real_target.as_usize())));
            }
            TerminatorKind::FalseUnwind { real_target, .. } => {
                t.push(("k", js("goto")));
                t.push(("target", jn(real_target.as_usize())));
            }
            TerminatorKind::InlineAsm { .. } => t.push(("k", js("asm"))),
        }
        t.push(("ln", jn(self.cx.line(sp))));
        t.push(("exp", J::Bool(sp.from_expansion())));
        if sp.from_expansion() {
            t.push(("mac", self.cx.macros(sp)));
        }
        J::Obj(vec![
            ("stmts", J::Arr(stmts)),
            ("term", J::Obj(t)),
            ("cleanup", J::Bool(bb.is_cleanup)),
        ])
    }

    fn body_json(&self) -> Vec<(&'static str, J)> {
        let body = self.body;
        let mut locals = Vec::new();
        for (_, d) in body.local_decls.iter_enumerated() {
            locals.push(J::Obj(vec![("ty", js(self.cx.ty(d.ty)))]));
        }
        let mut dbg = Vec::new();
        for v in &body.var_debug_info {
            if let mir::VarDebugInfoContents::Place(p) = &v.value {
                dbg.push(J::Obj(vec![("name", js(v.name.to_string())), ("place", self.place(p))]));
            }
        }
        let blocks: Vec<J> = body.basic_blocks.iter().map(|b| self.block(b)).collect();
        vec![
            ("arg_count", jn(body.arg_count)),
            ("locals", J::Arr(locals)),
            ("debug", J::Arr(dbg)),
            ("blocks", J::Arr(blocks)),
        ]
    }
}

fn function_json<'tcx>(cx: &Cx<'tcx>, did: LocalDefId) -> J {
    let tcx = cx.tcx;
    let def_id = did.to_def_id();
    let kind = tcx.def_kind(def_id);
    let mut o: Vec<(&'static str, J)> = vec![
        ("path", js(cx.path(def_id))),
        ("kind", js(format!("{:?}", kind))),
        ("span", cx.span(tcx.def_span(def_id))),
    ];
    if matches!(kind, DefKind::Fn | DefKind::AssocFn) {
        o.push(("vis", js(format!("{:?}", tcx.visibility(def_id)))));
        let sig = tcx.fn_sig(def_id).instantiate_identity().skip_norm_wip().skip_binder();
        o.push(("inputs", J::Arr(sig.inputs().iter().map(|t| js(cx.ty(*t))).collect())));
        o.push(("output", js(cx.ty(sig.output()))));
        o.push(("is_async", J::Bool(tcx.asyncness(def_id).is_async())));
        o.push(("is_const", J::Bool(tcx.is_const_fn(def_id))));
    }
    if matches!(kind, DefKind::Closure) {
        o.push(("parent", js(cx.path(tcx.typeck_root_def_id(def_id)))));
        o.push(("direct_parent", js(cx.path(tcx.parent(def_id)))));
        o.push(("is_coroutine", J::Bool(tcx.is_coroutine(def_id))));
        if tcx.is_coroutine(def_id) {
            if let Some(layout) = tcx.mir_coroutine_witnesses(def_id) {
                let v: Vec<J> = layout.field_tys.iter().map(|f| js(cx.ty(f.ty))).collect();
                o.push(("saved_tys", J::Arr(v)));
            }
        }
    }
    if kind == DefKind::AssocFn {
        let parent = tcx.parent(def_id);
        match tcx.def_kind(parent) {
            DefKind::Impl { .. } => {
                let self_ty = tcx.type_of(parent).instantiate_identity().skip_norm_wip();
                o.push(("impl_self", js(cx.ty(self_ty))));
                if let Some(tr) = tcx.impl_opt_trait_ref(parent) {
                    let tr = tr.instantiate_identity().skip_norm_wip();
                    o.push(("impl_trait", js(cx.path(tr.def_id))));
                }
            }
            DefKind::Trait => {
                o.push(("in_trait", js(cx.path(parent))));
            }
            _ => {}
        }
        o.push(("name", js(tcx.item_name(def_id).to_string())));
    }
    if kind == DefKind::Fn {
        o.push(("name", js(tcx.item_name(def_id).to_string())));
    }
    if !tcx.is_mir_available(def_id) {
        o.push(("nomir", J::Bool(true)));
        return J::Obj(o);
    }
    let body = tcx.optimized_mir(def_id);
    let tenv = TypingEnv::post_analysis(tcx, def_id);
    let bcx = BodyCx { cx, body, owner: def_id, tenv };
    let _ = bcx.owner;
    o.extend(bcx.body_json());
    let mut proms = Vec::new();
    for pb in tcx.promoted_mir(def_id).iter() {
        let pcx = BodyCx { cx, body: pb, owner: def_id, tenv };
        proms.push(J::Obj(pcx.body_json()));
    }
    o.push(("promoted", J::Arr(proms)));
    J::Obj(o)
}

fn attrs_json<'tcx>(cx: &Cx<'tcx>, did: LocalDefId) -> J {
    let tcx = cx.tcx;
    let hir_id = tcx.local_def_id_to_hir_id(did);
    let mut v = Vec::new();
    for a in tcx.hir_attrs(hir_id) {
        if let rustc_hir::Attribute::Unparsed(item) = a {
            let name: Vec<String> = item.path.segments.iter().map(|s| s.to_string()).collect();
            let args = match &item.args {
                rustc_hir::AttrArgs::Empty => String::new(),
                rustc_hir::AttrArgs::Delimited(d) => {
                    rustc_ast_pretty::pprust::tts_to_string(&d.tokens)
                }
                rustc_hir::AttrArgs::Eq { expr, .. } => format!("= {}", expr.symbol),
            };
            v.push(J::Obj(vec![("name", js(name.join("::"))), ("args", js(args))]));
        }
    }
    J::Arr(v)
}

fn adt_json<'tcx>(cx: &Cx<'tcx>, did: LocalDefId) -> J {
    let tcx = cx.tcx;
    let adt = tcx.adt_def(did.to_def_id());
    let mut variants = Vec::new();
    let discrs: Vec<(rustc_abi::VariantIdx, u128)> = if adt.is_enum() {
        adt.discriminants(tcx).map(|(i, d)| (i, d.val)).collect()
    } else {
        Vec::new()
    };
    for (vi, v) in adt.variants().iter_enumerated() {
        let mut fields = Vec::new();
        for f in v.fields.iter() {
            let t = tcx.type_of(f.did).instantiate_identity().skip_norm_wip();
            fields.push(J::Obj(vec![
                ("name", js(f.name.to_string())),
                ("ty", js(cx.ty(t))),
                ("vis", js(format!("{:?}", f.vis))),
            ]));
        }
        let d = discrs.iter().find(|(i, _)| *i == vi).map(|(_, d)| jn(*d)).unwrap_or(J::Null);
        let mut vo = vec![
            ("name", js(v.name.to_string())),
            ("idx", jn(vi.as_usize())),
            ("discr", d),
            ("fields", J::Arr(fields)),
        ];
        if adt.is_enum() {
            if let Some(l) = v.def_id.as_local() {
                vo.push(("attrs", attrs_json(cx, l)));
            }
        }
        variants.push(J::Obj(vo));
    }
    let kind = if adt.is_enum() {
        "enum"
    } else if adt.is_union() {
        "union"
    } else {
        "struct"
    };
    J::Obj(vec![
        ("path", js(cx.path(did.to_def_id()))),
        ("kind", js(kind)),
        ("span", cx.span(tcx.def_span(did.to_def_id()))),
        ("vis", js(format!("{:?}", tcx.visibility(did.to_def_id())))),
        ("attrs", attrs_json(cx, did)),
        ("variants", J::Arr(variants)),
    ])
}

fn const_json<'tcx>(cx: &Cx<'tcx>, did: LocalDefId) -> J {
    let tcx = cx.tcx;
    let def_id = did.to_def_id();
    let ty = tcx.type_of(def_id).instantiate_identity().skip_norm_wip();
    let mut o = vec![
        ("path", js(cx.path(def_id))),
        ("ty", js(cx.ty(ty))),
        ("span", cx.span(tcx.def_span(def_id))),
    ];
    if tcx.generics_of(def_id).own_requires_monomorphization()
        || tcx.generics_of(def_id).parent_count > 0
    {
        o.push(("generic", J::Bool(true)));
        return J::Obj(o);
    }
    match tcx.const_eval_poly(def_id) {
        Ok(ConstValue::Scalar(s)) => match s.try_to_scalar_int() {
            Ok(si) => o.push(("bits", jn(si.to_bits(si.size())))),
            Err(_) => o.push(("text", js(format!("{:?}", s)))),
        },
        Ok(other) => o.push(("text", js(format!("{:?}", other)))),
        Err(_) => o.push(("text", js("error"))),
    }
    J::Obj(o)
}

#[derive(Default)]
struct Cb {
    /// (enum name, variant name, attribute text) read from the expanded AST, because derive
    /// helper attributes (#[token], #[regex], #[error]) do not survive lowering to HIR
    variant_attrs: Vec<(String, String, String)>,
}

fn collect_variant_attrs(items: &[Box<rustc_ast::ast::Item>], out: &mut Vec<(String, String, String)>) {
    use rustc_ast::ast::{ItemKind, ModKind};
    for it in items {
        match &it.kind {
            ItemKind::Mod(_, _, ModKind::Loaded(inner, ..)) => collect_variant_attrs(inner, out),
            ItemKind::Enum(ident, _, def) => {
                for a in it.attrs.iter() {
                    out.push((
                        ident.to_string(),
                        String::new(),
                        rustc_ast_pretty::pprust::attribute_to_string(a),
                    ));
                }
                for v in def.variants.iter() {
                    for a in v.attrs.iter() {
                        out.push((
                            ident.to_string(),
                            v.ident.to_string(),
                            rustc_ast_pretty::pprust::attribute_to_string(a),
                        ));
                    }
                }
            }
            _ => {}
        }
    }
}

impl rustc_driver::Callbacks for Cb {
    fn after_expansion<'tcx>(
        &mut self,
        _compiler: &rustc_interface::interface::Compiler,
        tcx: TyCtxt<'tcx>,
    ) -> Compilation {
        let krate = tcx.crate_name(rustc_hir::def_id::LOCAL_CRATE).to_string();
        if WORKSPACE.contains(&krate.as_str()) {
            let r = tcx.resolver_for_lowering().borrow();
            collect_variant_attrs(&r.1.items, &mut self.variant_attrs);
        }
        Compilation::Continue
    }

    fn after_analysis<'tcx>(
        &mut self,
        _compiler: &rustc_interface::interface::Compiler,
        tcx: TyCtxt<'tcx>,
    ) -> Compilation {
        let krate = tcx.crate_name(rustc_hir::def_id::LOCAL_CRATE).to_string();
        if !WORKSPACE.contains(&krate.as_str()) {
            return Compilation::Continue;
        }
        let out_dir = match std::env::var("GLASFACTS_OUT") {
            Ok(d) => d,
            Err(_) => return Compilation::Continue,
        };
        let ctype = tcx
            .crate_types()
            .iter()
            .map(|t| format!("{:?}", t).to_lowercase())
            .collect::<Vec<_>>()
            .join("+");
        let cx = Cx { tcx, krate: krate.clone() };

        let mut adts = Vec::new();
        let mut consts = Vec::new();
        let mut statics = Vec::new();
        let mut fns = Vec::new();
        let mut impls = Vec::new();
        let mut traits = Vec::new();
        for did in tcx.hir_crate_items(()).definitions() {
            let def_id = did.to_def_id();
            match tcx.def_kind(def_id) {
                DefKind::Struct | DefKind::Enum | DefKind::Union => adts.push(adt_json(&cx, did)),
                DefKind::Const { .. } | DefKind::AssocConst { .. } => {
                    consts.push(const_json(&cx, did))
                }
                DefKind::Static { mutability, .. } => {
                    let ty = tcx.type_of(def_id).instantiate_identity().skip_norm_wip();
                    statics.push(J::Obj(vec![
                        ("path", js(cx.path(def_id))),
                        ("ty", js(cx.ty(ty))),
                        ("mut", J::Bool(mutability.is_mut())),
                        ("freeze", J::Bool(ty.is_freeze(tcx, TypingEnv::post_analysis(tcx, def_id)))),
                        ("span", cx.span(tcx.def_span(def_id))),
                    ]));
                }
                DefKind::Fn | DefKind::AssocFn => fns.push(function_json(&cx, did)),
                DefKind::Impl { .. } => {
                    let self_ty = tcx.type_of(def_id).instantiate_identity().skip_norm_wip();
                    let mut o = vec![
                        ("self_ty", js(cx.ty(self_ty))),
                        ("span", cx.span(tcx.def_span(def_id))),
                    ];
                    if let Some(tr) = tcx.impl_opt_trait_ref(def_id) {
                        let tr = tr.instantiate_identity().skip_norm_wip();
                        o.push(("trait", js(cx.path(tr.def_id))));
                    }
                    let items: Vec<J> = tcx
                        .associated_item_def_ids(def_id)
                        .iter()
                        .map(|d| js(cx.path(*d)))
                        .collect();
                    o.push(("items", J::Arr(items)));
                    impls.push(J::Obj(o));
                }
                DefKind::Trait => {
                    let items: Vec<J> = tcx
                        .associated_item_def_ids(def_id)
                        .iter()
                        .map(|d| js(cx.path(*d)))
                        .collect();
                    traits.push(J::Obj(vec![
                        ("path", js(cx.path(def_id))),
                        ("items", J::Arr(items)),
                    ]));
                }
                _ => {}
            }
        }
        // closures and coroutine bodies are body owners but not items
        for did in tcx.hir_body_owners() {
            if tcx.def_kind(did.to_def_id()) == DefKind::Closure {
                fns.push(function_json(&cx, did));
            }
        }
        let root = J::Obj(vec![
            ("crate", js(krate.clone())),
            ("crate_type", js(ctype.clone())),
            ("rustc", js(rustc_session::config::host_tuple().to_string())),
            (
                "variant_attrs",
                J::Arr(
                    self.variant_attrs
                        .iter()
                        .map(|(e, v, a)| J::Arr(vec![js(e.clone()), js(v.clone()), js(a.clone())]))
                        .collect(),
                ),
            ),
            ("adts", J::Arr(adts)),
            ("consts", J::Arr(consts)),
            ("statics", J::Arr(statics)),
            ("impls", J::Arr(impls)),
            ("traits", J::Arr(traits)),
            ("fns", J::Arr(fns)),
        ]);
        let mut s = String::new();
        root.write(&mut s);
        let file = format!("{}/{}-{}.json", out_dir, krate, ctype);
        let tmp = format!("{}.tmp{}", file, std::process::id());
        std::fs::write(&tmp, s).expect("write facts");
        std::fs::rename(&tmp, &file).expect("rename facts");
        Compilation::Continue
    }
}

fn main() {
    let mut args: Vec<String> = std::env::args().collect();
    // RUSTC_WORKSPACE_WRAPPER: argv[1] is the path of the real rustc
    if args.len() > 1 {
        args.remove(1);
    }
    rustc_driver::run_compiler(&args, &mut Cb::default());
}
