#!/bin/bash
# usage: tools/verify_seed.sh <ID> <suffix: "" or 2>   — confirms a seeded change in its scratch worktree
id=$1; n=$2; wt=/tmp/wt/$id; out=/tmp/seed/$id
patch=$out/patch$n.diff; demo=$out/demo$n
log=$out/verify$n.log; : > $log
git -C $wt checkout -q -- . ; git -C $wt clean -fdq -e target >/dev/null 2>&1
[ -n "$(git -C $wt status --porcelain)" ] && { echo "$id$n: worktree not clean" | tee -a $log; exit 2; }
run_demo() { if [ -x $demo/run.sh ]; then (cd $demo && ./run.sh $wt) >>$log 2>&1; elif [ -f $out/run$n.sh ]; then (cd $out && bash run$n.sh $wt) >>$log 2>&1; else echo "no run.sh" >>$log; return 99; fi; }
echo "--- demo on clean tree" >>$log; run_demo; clean_rc=$?
git -C $wt apply $patch >>$log 2>&1 || { echo "$id$n: patch does not apply" | tee -a $log; exit 2; }
echo "--- tests with patch" >>$log
(cd $wt && cargo test --workspace --no-fail-fast --offline 2>&1 | grep -E "^test .* FAILED|^test result|^error" ) >$out/tests$n.log 2>&1
fails=$(grep -c "FAILED$" $out/tests$n.log); known=$(grep -E "infer_annotated_lambda|infer_annotated_let|infer_labelled_pipe" $out/tests$n.log | grep -c FAILED)
builderr=$(grep -c "^error" $out/tests$n.log)
echo "--- demo with patch" >>$log; run_demo; mut_rc=$?
git -C $wt checkout -q -- .
echo "$id$n: clean_demo_rc=$clean_rc patched_demo_rc=$mut_rc test_failures=$fails (known $known) build_errors=$builderr" | tee -a $log
