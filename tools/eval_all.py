#!/usr/bin/env python3
"""Applies each delivered seeded patch to /repo, runs ALL checks, reverts; prints which checks fire."""
import glob, os, re, subprocess, sys, json
ids = sys.argv[1:]
assert not subprocess.run(["git", "-C", "/repo", "status", "--porcelain"], capture_output=True, text=True).stdout.strip(), "/repo dirty"
res = {}
for pid in ids:
    for patch in sorted(glob.glob("/tmp/seed/%s/patch*.diff" % pid)) + sorted(glob.glob("/verif/seeded/%s*/patch.diff" % pid)):
        r = subprocess.run(["git", "-C", "/repo", "apply", patch], capture_output=True, text=True)
        if r.returncode:
            print(patch, "DOES NOT APPLY"); continue
        out = subprocess.run(["/verif/check", "--all"], capture_output=True, text=True).stdout
        subprocess.run(["git", "-C", "/repo", "checkout", "--", "."])
        fired = {}
        cur = None
        for l in out.splitlines():
            m = re.match(r"VIOLATION property=(C\d+)", l)
            if m: cur = m.group(1)
            m = re.match(r"  rule (\S+) key (.*)", l)
            if m and cur: fired.setdefault(cur, []).append("%s/%s" % (m.group(1), m.group(2)[:70]))
        if "does not compile" in out: fired = {"BUILD": ["does not compile on nightly"]}
        res[patch] = fired
        print(os.path.relpath(patch, "/tmp/seed"), "->", {k: v[:3] for k, v in fired.items()} or "MISSED", flush=True)
json.dump(res, open("/tmp/seed/eval_%s.json" % "_".join(ids), "w"), indent=1)
