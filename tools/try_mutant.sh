#!/bin/bash
# usage: tools/try_mutant.sh <file-under-repo> <python-expr old> <python-expr new> <ID...>   (applies, checks, reverts)
f=$1; old=$2; new=$3; shift 3
python3 - "$f" "$old" "$new" <<'PY'
import sys
f,old,new=sys.argv[1:4]
p='/repo/'+f; s=open(p).read()
assert s.count(old)>=1, "pattern not found"
open(p,'w').write(s.replace(old,new,1))
PY
[ $? -ne 0 ] && exit 1
for id in "$@"; do /verif/check $id 2>&1 | grep -v "^KNOWN-FINDING" | grep -E "^VIOLATION|  rule|^C[0-9]+:|does not compile|error" | head -12; done
git -C /repo checkout -- .
