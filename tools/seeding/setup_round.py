#!/usr/bin/env python3
"""Prepares one seeding round: a scratch worktree of /repo's HEAD per property under /tmp/wt/<ID>, and the prompt a
fresh sub-agent gets (the property text and nothing from /verif) under /tmp/seed/<ID>.prompt.txt.
usage: setup_round.py <focus.json>   where focus.json maps property id -> index of the anchor mechanism to concentrate on (or null)"""
import json, os, subprocess, sys
HERE = os.path.dirname(os.path.abspath(__file__))
ROOT = os.path.dirname(os.path.dirname(HERE))
focus = json.load(open(sys.argv[1])) if len(sys.argv) > 1 else {}
tmpl = open(os.path.join(HERE, "PROMPT.tmpl")).read()
os.makedirs("/tmp/seed", exist_ok=True)
os.makedirs("/tmp/wt", exist_ok=True)
for l in open(os.path.join(ROOT, "properties.jsonl")):
    p = json.loads(l)
    pid = p["id"]
    if pid not in focus:
        continue
    wt, out = "/tmp/wt/" + pid, "/tmp/seed/" + pid
    if not os.path.isdir(wt):
        subprocess.run(["git", "-C", "/repo", "worktree", "add", "--detach", "-q", wt, "HEAD"], check=True)
    os.makedirs(out, exist_ok=True)
    f = focus[pid]
    ftxt = ""
    if f is not None:
        ms = p["anchors"]["mechanism"]
        sel = [ms[i] for i in (f if isinstance(f, list) else [f])]
        ftxt = "Concentrate on this mechanism named in the property (a change somewhere else that breaks the property through it is fine too): " + \
               "; ".join("%s (%s)" % (m["name"], m["where"]) for m in sel) + "."
    open("/tmp/seed/%s.prompt.txt" % pid, "w").write(tmpl.format(WT=wt, OUT=out, PROP=json.dumps(p, indent=1), ID=pid, FOCUS=ftxt, STYLE=os.environ.get("SEED_STYLE", "")))
    print(pid, "->", wt, ftxt[:100])
