#!/bin/bash
# Re-runs every claimed check on /repo's clean tree so the committed evidence matches the committed tree.
cd "$(dirname "$0")/.."
if [ -n "$(git -C /repo status --porcelain)" ]; then echo "/repo is dirty"; exit 1; fi
rc=0
python3 "$(dirname "$0")/gen_fingerprints.py" >/dev/null
for id in $(python3 -c "import json;print(' '.join(c['property_id'] for c in json.load(open('MANIFEST.json'))['checks']))"); do
  ./check $id --tier ${1:-quick} | tail -1 || rc=1
done
python3-vt - <<'PY'
import json,jsonschema,glob
sch=json.load(open('/root/.vp/EVIDENCE.schema.json'))
man=json.load(open('MANIFEST.json'))
jsonschema.validate(man, json.load(open('/root/.vp/MANIFEST.schema.json')))
for c in man['checks']:
    ev=json.load(open('evidence/%s.json'%c['property_id']))
    jsonschema.validate(ev, sch)
    assert ev['level']==c['level_claimed']['category'], (c['property_id'], ev['level'])
    assert ev['violations']==0, c['property_id']
print('manifest + evidence valid')
PY
exit $rc
