#!/usr/bin/env python3
"""Regenerates MANIFEST.json from the rule modules' META (claims only properties that have a module)."""
import importlib, json, os, sys
ROOT = os.path.dirname(os.path.dirname(os.path.abspath(__file__)))
sys.path.insert(0, ROOT)
NA = {}
NOT_BUILT = "structural clause identified in DESIGN.md section 4 but no check is built yet"
BASE = "cd /repo && cargo test --workspace --no-fail-fast --offline"
checks, claimed = [], set()
for n in range(1, 21):
    pid = "C%02d" % n
    if not os.path.exists(os.path.join(ROOT, "rules", pid.lower() + ".py")):
        continue
    m = importlib.import_module("rules." + pid.lower()).META
    claimed.add(pid)
    checks.append({
        "property_id": pid,
        "quick_cmd": "./check %s --tier quick" % pid,
        "thorough_cmd": "./check %s --tier thorough" % pid,
        "evidence_file": "/verif/evidence/%s.json" % pid,
        "replay_cmd_template": "./check --replay {path}",
        "engine": m.get("engine", "glasfacts + rules/%s.py" % pid.lower()),
        "level_claimed": {"category": m["level"], "text": m.get("level_text", m["explanation"]),
                          "design_ref": "DESIGN.md section 4, %s" % pid},
        "level_note": m.get("level_note", "Trusted: " + "; ".join(m.get("trusted_base", [])) +
                            ". Not decided: " + m.get("not_decided", "")),
        "technique": m.get("technique", "static analysis: custom rules over rustc MIR facts (resolved callees, CFG dominance, def-use)"),
    })
na = []
for n in range(1, 21):
    pid = "C%02d" % n
    if pid not in claimed:
        na.append({"property_id": pid, "reason": NA.get(pid, NOT_BUILT)})
man = {
 "version": 1,
 "setup_cmd": "./setup.sh",
 "hooks": {"guard": "glas_verif", "enable": "none: static analysis reads /repo's source; no instrumentation is compiled in (guard name reserved, unused)",
           "baseline_off_cmd": BASE, "source_commits": [], "add_only": True},
 "engines": [
  {"name": "glasfacts", "path": "glasfacts/", "serves_properties": sorted(claimed),
   "kind_free_text": "rustc_private driver (nightly) injected via RUSTC_WORKSPACE_WRAPPER under cargo +nightly check on /repo's working tree: dumps ADTs, consts, impls, attributes and structured MIR with resolved callees as JSON"},
  {"name": "rules", "path": "rules/ lib/", "serves_properties": sorted(claimed),
   "kind_free_text": "Python (stdlib) rule engines over the facts: CFG dominance, def-use/origin tracing, path-sensitive walks, call-graph reachability, enum tabulation, parser abstract interpretation"},
 ],
 "checks": checks,
 "not_applicable": na,
 "notes": "All checks are static: they inspect /repo's current source through rustc's MIR on every run and never execute glas. Known findings: known_findings.json. Seeded mutants: seeded/.",
}
json.dump(man, open(os.path.join(ROOT, "MANIFEST.json"), "w"), indent=1)
print("claimed:", sorted(claimed), "n/a:", [x["property_id"] for x in na])
