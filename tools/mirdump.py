#!/usr/bin/env python3
"""Pretty-print the extracted MIR of one function: tools/mirdump.py <path-substring> [--facts dir]"""
import sys, os, json
sys.path.insert(0, os.path.dirname(os.path.dirname(os.path.abspath(__file__))))
from lib import facts as FA

def P(p):
    s = "_%d" % p["l"]
    for e in p["p"]:
        if e == "*": s = "(*%s)" % s
        elif "f" in e: s += "." + str(e.get("n", e["f"]))
        elif "dc" in e: s = "(%s as %s)" % (s, e["n"])
        elif "i" in e: s += "[_%d]" % e["i"]
        else: s += "{%s}" % json.dumps(e)
    return s

def O(o):
    if "cp" in o: return P(o["cp"])
    if "mv" in o: return "move " + P(o["mv"])
    k = o.get("k")
    if k:
        if "fn" in k: return "fn:" + (k["fn"].get("res") or k["fn"]["def"])
        if "variant" in k: return "%s::%s" % (k["ty"].rsplit("::",1)[-1], k["variant"])
        if "bits" in k: return "%s_%s%s" % (k["bits"], k["ty"], ("{%s}" % k["def"]) if "def" in k else "")
        if "promoted" in k: return "promoted[%d]" % k["promoted"]
        if "str" in k: return json.dumps(k["str"])
        if "zst" in k: return "()" if k["ty"]=="()" else "zst:"+k["ty"]
        return "const(%s %s)" % (k.get("def", ""), k.get("text", k["ty"]))
    return json.dumps(o)

def RV(r):
    k = r["k"]
    if k == "use": return O(r["op"])
    if k == "ref": return "&%s%s" % ("mut " if r["mut"] else "", P(r["place"]))
    if k == "bin": return "%s(%s, %s)" % (r["op"], O(r["a"]), O(r["b"]))
    if k == "un": return "%s(%s)" % (r["op"], O(r["a"]))
    if k == "discr": return "discriminant(%s)" % P(r["place"])
    if k == "cast": return "%s as %s [%s]" % (O(r["op"]), r["ty"], r["ck"])
    if k == "agg":
        if r["agg"] == "adt": return "%s::%s{%s}" % (r["adt"], r["variant"], ", ".join(O(x) for x in r["ops"]))
        if "closure" in r: return "closure %s [%s]" % (r["closure"], ", ".join(O(x) for x in r["ops"]))
        return "%s(%s)" % (r["agg"], ", ".join(O(x) for x in r["ops"]))
    return json.dumps(r)

def dump(f, show_storage=False):
    print("fn %s  (%s)  args=%d" % (f.path, f.loc(), f.d["arg_count"]))
    for v in f.d["debug"]:
        print("   debug %s = %s : %s" % (v["name"], P(v["place"]), f.local_ty(v["place"]["l"])))
    def body(blocks, reach):
        for i, b in enumerate(blocks):
            if b["cleanup"]: continue
            if reach is not None and i not in reach: continue
            print(" bb%d:" % i)
            for s in b["stmts"]:
                if s["k"] == "assign": print("    %s = %s   // %d" % (P(s["place"]), RV(s["rv"]), s["ln"]))
                elif s["k"] == "setdiscr": print("    discr(%s) = %d" % (P(s["place"]), s["vi"]))
                elif show_storage: print("    %s _%d" % (s["k"], s["l"]))
            t = b["term"]; k = t["k"]
            if k == "call":
                nm = (t["fn"].get("res") or t["fn"]["def"]) if "fn" in t else "(" + O(t["fnop"]) + ")"
                print("    %s = %s(%s) -> bb%s   // %d %s" % (P(t["dest"]), nm, ", ".join(O(a) for a in t["args"]), t["target"], t["ln"], t.get("mac", "")))
            elif k == "switch":
                print("    switch(%s : %s) %s else bb%d   // %d" % (O(t["op"]), t["ty"], " ".join("%d->bb%d" % (v, bb) for v, bb in t["targets"]), t["otherwise"], t["ln"]))
            elif k == "drop": print("    drop(%s : %s) -> bb%d" % (P(t["place"]), t["pty"], t["target"]))
            elif k == "assert": print("    assert(%s == %s, %s) -> bb%d  // %d" % (O(t["cond"]), t["expected"], t["msg"], t["target"], t["ln"]))
            elif k in ("goto", "yield"): print("    %s -> bb%d" % (k, t["target"]))
            else: print("    %s" % k)
    body(f.blocks, f.reachable())
    for n, pb in enumerate(f.d.get("promoted", [])):
        print(" promoted[%d]:" % n)
        body(pb["blocks"], None)

if __name__ == "__main__":
    F = FA.Facts.current() if "--facts" not in sys.argv else FA.Facts(sys.argv[sys.argv.index("--facts")+1])
    pat = sys.argv[1]
    exact = [p for p in F.fns if p == pat]
    for p in (exact or [p for p in F.fns if pat in p]):
        dump(F.fns[p], "--storage" in sys.argv)
