#!/usr/bin/env python3
"""For every `fix:` commit of /repo: the reverse of the commit, as far as it still applies to the current tree, is kept as a seeded
change `seeded/regress-<sha>/` together with the checks that report it (evaluated on a scratch copy). The thorough tier replays
them: a repaired defect that returns must be reported again."""
import importlib, json, os, shutil, subprocess, sys
ROOT = os.path.dirname(os.path.dirname(os.path.abspath(__file__)))
sys.path.insert(0, ROOT)
from lib import selfval, extract as X, facts as FA, report as R

CLAIMED = [c["property_id"] for c in json.load(open(os.path.join(ROOT, "MANIFEST.json")))["checks"]]
FIXED = {}
for line in R.load_known().get("fixed", []):
    parts = line.split()
    if len(parts) > 3 and parts[1].startswith("property="):
        FIXED.setdefault(parts[2], []).append(parts[1].split("=", 1)[1])


def git(*a):
    return subprocess.run(["git", "-C", X.REPO] + list(a), capture_output=True, text=True)


def main(only):
    log = git("log", "--format=%h %s").stdout.splitlines()
    for line in log:
        sha, subj = line.split(" ", 1)
        if not subj.startswith("fix:") or (only and sha not in only):
            continue
        dst = os.path.join(ROOT, "seeded", "regress-" + sha)
        diff = git("diff", sha, sha + "~1", "--", "crates").stdout
        tmp = "/tmp/regress-%s.diff" % sha
        open(tmp, "w").write(diff)
        d = selfval.scratch_copy(X.REPO)
        try:
            r = subprocess.run(["git", "apply", "--whitespace=nowarn", tmp], cwd=d, capture_output=True, text=True)
            if r.returncode:
                print(sha, "reverse patch no longer applies (later changes on the same lines):", subj[:70])
                continue
            try:
                fdir, info = X.extract(repo=d, target_dir=os.path.join(X.BUILD, "target-scratch"))
            except SystemExit:
                print(sha, "reverse patch does not compile on the current tree:", subj[:70])
                continue
            F = FA.Facts(fdir, info)
            caught = {}
            for pid in CLAIMED:
                mod = importlib.import_module("rules." + pid.lower())
                res = R.Result(pid)
                try:
                    mod.run(F, res, "quick")
                except FA.AnchorMissing as e:
                    res.anchor_missing("anchor", str(e))
                known = {k["key"] for k in R.load_known()["findings"] if k["property"] == pid}
                failed = [o.full_key() for o in res.obs if o.status == "failed" and o.full_key() not in known]
                if failed:
                    caught[pid] = sorted(failed)[:6]
        finally:
            shutil.rmtree(d, ignore_errors=True)
        props = FIXED.get(sha, [])
        if not caught:
            print(sha, "NOT REPORTED by any check:", subj[:70])
            continue
        shutil.rmtree(dst, ignore_errors=True)
        os.makedirs(dst)
        shutil.copy(tmp, os.path.join(dst, "patch.diff"))
        meta = {"property": props[0] if props else sorted(caught)[0], "regression_of": sha, "summary": "reverts the repair `%s`" % subj,
                "origin": "the reverse of /repo's own fix commit (not agent-made): the defect the checks found, re-introduced",
                "caught_by": caught, "missed_by_own_property": bool(props) and not any(p in caught for p in props)}
        json.dump(meta, open(os.path.join(dst, "meta.json"), "w"), indent=1)
        print(sha, "->", {k: v[:2] for k, v in caught.items()}, flush=True)


main(set(sys.argv[1:]))
