# usage: run_patch.py <patch> [IDs]: all (or the given) rule modules on a scratch copy of /repo + patch; prints the failed obligations that are not known findings. SLOT=<n> selects the cargo target dir .build/target-par-<n> (runs with different SLOTs may overlap).
# usage: one_patch.py <patch> : run all rule modules on repo+patch; print failures not in known findings
import sys, importlib, os, json
sys.path.insert(0, os.path.dirname(os.path.dirname(os.path.abspath(__file__))))
from lib import report as R, facts as FA, selfval, extract as X
import subprocess, shutil
patch=os.path.abspath(sys.argv[1])
d = selfval.scratch_copy(X.REPO)
r = subprocess.run(["git","apply","--whitespace=nowarn",patch],cwd=d,capture_output=True,text=True)
if r.returncode: print(patch,'NOAPPLY'); shutil.rmtree(d,ignore_errors=True); sys.exit(0)
td=os.path.join(X.BUILD,"target-par-%s" % (os.environ.get('SLOT') or os.getpid()%8))
try:
    fdir, info = X.extract(repo=d, target_dir=td)
except SystemExit:
    print(patch,'NOCOMPILE'); shutil.rmtree(d,ignore_errors=True); sys.exit(0)
shutil.rmtree(d, ignore_errors=True)
F=FA.Facts(fdir, info)
ids=sys.argv[2:] or sorted(f[:-3].upper() for f in os.listdir(os.path.join(os.path.dirname(os.path.dirname(os.path.abspath(__file__))),'rules')) if f.startswith('c') and f.endswith('.py'))
out=[]
for pid in ids:
    mod=importlib.import_module('rules.'+pid.lower())
    res=R.Result(pid)
    try: mod.run(F,res,'quick')
    except FA.AnchorMissing as e: res.anchor_missing('anchor',str(e))
    except Exception as e: out.append('%s CRASH %r'%(pid,e)); continue
    known={k['key'] for k in R.load_known()['findings'] if k['property']==pid}
    bad=[o for o in res.obs if o.status=='failed' and o.full_key() not in known]
    for o in bad: out.append('%s %s'%(pid,o.full_key()))
print(os.path.basename(os.path.dirname(patch)) if 'seeded' in patch else patch, '|', ' ; '.join(out) if out else 'silent')
