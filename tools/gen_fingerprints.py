#!/usr/bin/env python3
"""Records a fingerprint (signature + set of callees) of every function of the workspace crates on the CLEAN tree, into
rules/fingerprints.json. A check run uses it to recognise a function that was renamed or moved since: the named anchor is
missing, and exactly one new function has its signature and (nearly) its callees (lib/facts.py: Facts._aliases)."""
import json, os, sys
ROOT = os.path.dirname(os.path.dirname(os.path.abspath(__file__)))
sys.path.insert(0, ROOT)
from lib import facts as FA
F = FA.Facts.current(aliases=False)
out = {p: FA.fingerprint(F, f) for p, f in sorted(F.fns.items()) if f.blocks and "{closure" not in p and not p.startswith("[bin]")}
json.dump(out, open(os.path.join(ROOT, "rules", "fingerprints.json"), "w"), indent=0, sort_keys=True)
print("fingerprints:", len(out))
