#!/usr/bin/env python3
"""Rebases the seeded patches that no longer apply to /repo's HEAD (after a `fix:` commit touched the same lines): finds the
newest earlier commit each applies to, commits it there in a scratch worktree and cherry-picks that commit onto HEAD.
A clean pick replaces patch.diff (the old one is kept as patch.diff.orig-<sha>); a conflict is reported for rebasing by hand.
usage: rebase_seeds.py [--dry]"""
import glob, os, subprocess, sys, shutil, tempfile
REPO = "/repo"
dry = "--dry" in sys.argv
def git(*a, cwd=REPO, check=False):
    return subprocess.run(["git", *a], cwd=cwd, capture_output=True, text=True, check=check)
head = git("rev-parse", "HEAD").stdout.strip()
hist = git("rev-list", "--max-count=40", "HEAD").stdout.split()
wt = tempfile.mkdtemp(prefix="rebase-seeds-")
shutil.rmtree(wt)
git("worktree", "add", "--detach", "-q", wt, head, check=True)
git("config", "user.email", "v@v", cwd=wt); git("config", "user.name", "v", cwd=wt)
res = {"ok": [], "rebased": [], "conflict": [], "nobase": []}
try:
    for p in sorted(glob.glob("/verif/seeded/*/patch.diff")):
        name = os.path.basename(os.path.dirname(p))
        git("checkout", "-q", "--detach", head, cwd=wt); git("reset", "-q", "--hard", cwd=wt); git("clean", "-fdq", cwd=wt)
        if git("apply", "--check", "--whitespace=nowarn", p, cwd=wt).returncode == 0:
            res["ok"].append(name); continue
        base = None
        for c in hist[1:]:
            git("checkout", "-q", "--detach", c, cwd=wt)
            if git("apply", "--check", "--whitespace=nowarn", p, cwd=wt).returncode == 0:
                base = c; break
        if base is None:
            res["nobase"].append(name); continue
        git("apply", "--whitespace=nowarn", p, cwd=wt, check=True)
        git("add", "-A", cwd=wt); git("commit", "-qm", "seed " + name, cwd=wt, check=True)
        pick = git("rev-parse", "HEAD", cwd=wt).stdout.strip()
        git("checkout", "-q", "--detach", head, cwd=wt)
        r = git("cherry-pick", pick, cwd=wt)
        if r.returncode != 0:
            git("cherry-pick", "--abort", cwd=wt)
            res["conflict"].append((name, base[:7])); continue
        diff = git("diff", head, "HEAD", cwd=wt).stdout
        res["rebased"].append((name, base[:7]))
        if not dry:
            shutil.copy(p, p + ".orig-" + base[:7])
            open(p, "w").write(diff)
finally:
    git("worktree", "remove", "--force", wt)
for k, v in res.items():
    print(k, len(v), v if k != "ok" else "")
