#!/usr/bin/env python3
"""Records, for every reviewed panic site (C10/Q1, C15/M1), the guard signature it has on the tree it was reviewed on.
Run by hand after reviewing; the checks compare the recorded signature with the current one."""
import json, os, sys
ROOT = os.path.dirname(os.path.dirname(os.path.abspath(__file__)))
sys.path.insert(0, ROOT)
from lib import facts as FA, flow as FL, panics as PN
F = FA.Facts.current()
p = os.path.join(ROOT, "rules", "reviewed.json")
rv = json.load(open(p))
n = 0
for prop, rule in (("C10", "Q1"), ("C15", "M1")):
    for key, ent in rv.get(prop, {}).items():
        full = key[len(rule) + 1:]
        fnp, site = None, None
        for cand in F.fns:
            if full.startswith(cand + "/") and (fnp is None or len(cand) > len(fnp)):
                fnp = cand
        if fnp is None:
            print("no function for", key); continue
        f = F.fns[fnp]; d = FL.Defs(f)
        skey = full[len(fnp) + 1:]
        for b, kind, detail, ln, k, exp in PN.sites_in(f):
            if k == skey:
                # an entry whose reason does not lean on the branch the site stands in keeps no conditions (it follows its site anywhere)
                ent["guards"] = [] if ent.get("guard_free") else FL.guard_signature(F, f, b, d); n += 1
json.dump(rv, open(p, "w"), indent=1)
print("filled", n)
