#!/bin/bash
# usage: tools/r6_eval.sh <ID> <n: "" or 2> [slot]  — confirm a delivered seed in its worktree, then run every rule module on repo+patch
id=$1; n=$2; slot=${3:-12}
/verif/tools/verify_seed.sh $id "$n" > ${R_OUT:-/tmp/r6}/$id$n.verify 2>&1
SLOT=$slot python3 /verif/tools/run_patch.py /tmp/seed/$id/patch$n.diff > ${R_OUT:-/tmp/r6}/$id$n.rules 2>&1
echo "$(tail -1 ${R_OUT:-/tmp/r6}/$id$n.verify) || $(tail -1 ${R_OUT:-/tmp/r6}/$id$n.rules)" > ${R_OUT:-/tmp/r6}/$id$n.summary
