#!/usr/bin/env python3
"""Copies the confirmed seeded changes from the scratch area into /verif/seeded/<ID>-<n>/ (patch.diff, the
demonstration, meta.json) and records which checks report each of them (evaluated on a scratch copy of /repo)."""
import glob, importlib, json, os, shutil, subprocess, sys
ROOT = os.path.dirname(os.path.dirname(os.path.abspath(__file__)))
sys.path.insert(0, ROOT)
from lib import selfval, extract as X, facts as FA, report as R

CLAIMED = [c["property_id"] for c in json.load(open(os.path.join(ROOT, "MANIFEST.json")))["checks"]]


def evaluate_all(patch):
    d = selfval.scratch_copy(X.REPO)
    try:
        r = subprocess.run(["git", "apply", "--whitespace=nowarn", patch], cwd=d, capture_output=True, text=True)
        if r.returncode:
            return None
        try:
            fdir, info = X.extract(repo=d, target_dir=os.path.join(X.BUILD, "target-scratch"))
        except SystemExit:
            return "nocompile"
        F = FA.Facts(fdir, info)
        out = {}
        for pid in CLAIMED:
            mod = importlib.import_module("rules." + pid.lower())
            res = R.Result(pid)
            try:
                mod.run(F, res, "quick")
            except FA.AnchorMissing as e:
                res.anchor_missing("anchor", str(e))
            known = {k["key"] for k in R.load_known()["findings"] if k["property"] == pid}
            failed = [o.full_key() for o in res.obs if o.status == "failed" and o.full_key() not in known]
            if failed:
                out[pid] = failed
        return out
    finally:
        shutil.rmtree(d, ignore_errors=True)


def main(ids):
    base = 0
    if ids and ids[0].startswith("--base="):
        base = int(ids[0].split("=", 1)[1])
        ids = ids[1:]
    skip = set()
    if ids and ids[0].startswith("--skip="):
        skip = set(ids[0].split("=", 1)[1].split(","))
        ids = ids[1:]
    for pid in ids:
        for n, suf in ((str(base + 1), ""), (str(base + 2), "2"), (str(base + 3), "3")):
            if pid + suf in skip:
                continue
            src = "/tmp/seed/%s" % pid
            patch = "%s/patch%s.diff" % (src, suf)
            ver = "%s/myverify%s.txt" % (src, suf)
            if not os.path.exists(patch):
                continue
            vline = ""
            for cand in (ver, "%s/verify%s.log" % (src, suf)):
                if os.path.exists(cand):
                    ls = [l for l in open(cand).read().splitlines() if "clean_demo_rc" in l]
                    if ls:
                        vline = ls[-1]
            import re as _re
            if not _re.search(r"clean_demo_rc=0 patched_demo_rc=[1-9]", vline) or "test_failures=3 (known 3)" not in vline:
                print(pid, n, "NOT CONFIRMED:", vline)
                continue
            caught = evaluate_all(patch)
            if caught is None or caught == "nocompile":
                print(pid, n, "patch does not apply / compile on the current tree:", caught)
                continue
            dst = os.path.join(ROOT, "seeded", "%s-%s" % (pid, n))
            shutil.rmtree(dst, ignore_errors=True)
            os.makedirs(dst)
            shutil.copy(patch, os.path.join(dst, "patch.diff"))
            demo = "%s/demo%s" % (src, suf)
            if os.path.isdir(demo):
                shutil.copytree(demo, os.path.join(dst, "demo"), ignore=shutil.ignore_patterns("target", "*-target", "Cargo.lock", "Cargo.toml", "__pycache__"))
            am = {}
            mp = "%s/meta%s.json" % (src, suf)
            if os.path.exists(mp):
                try:
                    am = json.load(open(mp))
                except Exception:
                    am = {}
            meta = {
                "property": pid,
                "summary": am.get("summary", ""),
                "needs": am.get("needs", ""),
                "files": am.get("files", []),
                "origin": "fresh sub-agent given only the property text and its own scratch worktree",
                "ran_by_author": am.get("ran", []),
                "confirmed": {
                    "how": "tools/verify_seed.sh in the scratch worktree /tmp/wt/%s: demo on the clean tree, `git apply`, `cargo test --workspace --no-fail-fast --offline`, demo on the patched tree, `git checkout -- .`" % pid,
                    "outcome": vline,
                },
                "caught_by": {k: sorted(v)[:6] for k, v in caught.items()},
                "missed_by_own_property": pid not in caught,
            }
            json.dump(meta, open(os.path.join(dst, "meta.json"), "w"), indent=1)
            print(pid, n, "->", {k: v[:2] for k, v in caught.items()} or "MISSED", flush=True)


main(sys.argv[1:])
