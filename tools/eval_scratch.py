#!/usr/bin/env python3
"""usage: tools/eval_scratch.py <patch.diff> [ID ...] — applies the patch to a scratch copy of /repo's working tree
(never to /repo), extracts facts from the copy and prints the failed obligations of every (or the named) claimed check."""
import importlib, json, os, shutil, subprocess, sys
ROOT = os.path.dirname(os.path.dirname(os.path.abspath(__file__)))
sys.path.insert(0, ROOT)
from lib import selfval, extract as X, facts as FA, report as R

patch = os.path.abspath(sys.argv[1])
ids = sys.argv[2:] or [c["property_id"] for c in json.load(open(os.path.join(ROOT, "MANIFEST.json")))["checks"]]
d = selfval.scratch_copy(X.REPO)
try:
    r = subprocess.run(["git", "apply", "--whitespace=nowarn", patch], cwd=d, capture_output=True, text=True)
    if r.returncode:
        print("patch does not apply:", r.stderr[:300]); sys.exit(2)
    try:
        fdir, info = X.extract(repo=d, target_dir=os.path.join(X.BUILD, "target-scratch"))
    except SystemExit:
        print("does not compile"); sys.exit(2)
    F = FA.Facts(fdir, info)
    bad = 0
    for pid in ids:
        mod = importlib.import_module("rules." + pid.lower())
        res = R.Result(pid)
        try:
            mod.run(F, res, "quick")
        except FA.AnchorMissing as e:
            res.anchor_missing("anchor", str(e))
        known = {k["key"] for k in R.load_known()["findings"] if k["property"] == pid}
        failed = [o for o in res.obs if o.status == "failed" and o.full_key() not in known]
        print("%s: %d obligations, %d failed" % (pid, len(res.obs), len(failed)))
        for o in failed[:6]:
            print("    %s — %s" % (o.full_key(), (o.how or "")[:160]))
        bad += len(failed)
    sys.exit(1 if bad else 0)
finally:
    shutil.rmtree(d, ignore_errors=True)
