#!/bin/bash
# usage: tools/eval_seed.sh <patch.diff> <ID> [more IDs]  — applies the patch to /repo, runs the checks, reverts.
p=$1; shift
if [ -n "$(git -C /repo status --porcelain)" ]; then echo "/repo dirty"; exit 2; fi
git -C /repo apply "$p" || { echo "patch does not apply"; exit 2; }
for id in "$@"; do /verif/check $id 2>&1 | grep -E "^VIOLATION|  rule|^C[0-9]+:|does not compile" | cut -c1-220 | head -14; done
git -C /repo checkout -- . ; git -C /repo status --porcelain | head -3
