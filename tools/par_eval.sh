#!/bin/bash
# usage: tools/par_eval.sh <out.log> <first-slot> <n-slots> "<IDs>" <patch...> : run the named rule modules on repo+patch for every patch, n at a time
out=$1; first=$2; n=$3; ids=$4; shift 4
cd /verif
i=0; for p in "$@"; do echo "$((i % n)) $p"; i=$((i+1)); done > $out.list
for s in $(seq 0 $((n-1))); do
  ( grep "^$s " $out.list | cut -d' ' -f2 | while read p; do SLOT=$((first+s)) python3 /verif/tools/run_patch.py $p $ids; done > $out.$s 2>&1 ) &
done
wait
cat $out.[0-9]* > $out; echo done >> $out
