import json, glob, os, sys
log={}
for l in open('/tmp/all_patches.log'):
    if ' | ' not in l: continue
    name, rest = l.rstrip('\n').split(' | ',1)
    name=name.strip()
    fails={}
    if rest.strip()!='silent':
        for it in rest.split(' ; '):
            pid,key=it.split(' ',1)
            fails.setdefault(pid,[]).append(key)
    log[name]=fails
bad=0
for m in sorted(glob.glob('/verif/seeded/*/meta.json')):
    name=os.path.basename(os.path.dirname(m)); meta=json.load(open(m))
    if name not in log: print(name,'NOT RUN'); continue
    got=log[name]
    if meta.get('benign'):
        al={p:k for p,k in got.items() if p in meta.get('silent_for',[])}
        if al: bad+=1; print('BENIGN ALARM',name,al)
    else:
        for pid,keys in (meta.get('caught_by') or {}).items():
            failed=got.get(pid,[])
            if not any(any(f.startswith(k) for f in failed) for k in keys):
                bad+=1; print('LOST',name,pid,'expected',keys[:2],'now',failed[:3])
print('problems',bad,'patches',len(log))
