#!/bin/bash
# run every seeded patch through all rules, 4 at a time (one cargo target dir per slot)
cd /verif
ls /verif/seeded/*/patch.diff | awk '{print NR%8, $0}' > /tmp/patchlist.txt
for slot in 0 1 2 3 4 5 6 7; do
  ( grep "^$slot " /tmp/patchlist.txt | cut -d' ' -f2 | while read p; do SLOT=$slot python3 /verif/tools/run_patch.py $p; done > /tmp/allp_$slot.log 2>&1 ) &
done
wait
cat /tmp/allp_*.log > /tmp/all_patches.log; echo done >> /tmp/all_patches.log
