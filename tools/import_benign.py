import sys, json, os, shutil, subprocess, importlib
sys.path.insert(0,'/verif')
from lib import report as R, facts as FA, selfval, extract as X
CLAIMED=[c["property_id"] for c in json.load(open('/verif/MANIFEST.json'))["checks"]]
KNOWN_ALARM={
 ('y7','3'): "C05 S8 / C07 N18 / C18 X11: the match that files an unqualified import under values / types rewritten as a match on the pair `(matches!(val, AdtId | TypeAliasId), is_type_import)`: the rule reads which definition kinds can reach an insert off the discriminant switch that dominates it; a kind test bound to a bool and matched later in a tuple is not followed (the boolean half - is_type_import - is, since flow.gate_for reads a switch on a field of a freshly built tuple as a decision on that local)",
 ('z1','2'): "C10 Q1: GleamLexer::next's two `TextSize::try_from(..).unwrap()` moved into offset_to_size, which span_to_range calls twice and next() calls through it: two reviewed sites became one site two helper levels down; the inventory follows several orphaned sites into one helper only when the helper is called from the reviewed function itself (a limit of the code-motion matching, stated rather than hidden; L2, L4m and A3 follow the helpers since this campaign)",
 ('z1','3'): "C01 L7 / C04 G11 / C07 N1: the local macro n_tokens! of build_tree (`take_while(pred).count()`) rewritten as a run-length function with an explicit `for` loop over `tokens.iter().skip(from)` and a predicate passed as a function pointer: the structural proof of the tree builder reads a run length as take_while + count (in the macro expansion or in a run-length function), not as a hand-written counting loop (the same limit as Y3-3)",
 ('Y3','1'): "C02 P6 / C10 Q1: lex_string walks char_indices() and adds `offset + c.len_utf8()`, the slicing site sits under a `match` arm guard instead of an `if`: the overflow-checked addition and the slice are different constructs under differently spelled guards than the reviewed ones (verifier-style inventory; same class as W6-1 and X7-3)",
 ('Y3','3'): "C01 L7: the local macro n_tokens! of build_tree rewritten as a local closure `count_tokens(from, pred: fn(SyntaxKind) -> bool)`: the proof reads the trivia predicate of every eat_token count at the macro expansion or at the call of a run-length *function*; it does not follow a call through a closure value, so it cannot see which predicate a count was taken with and reports the five counts (a limit of the analysis, stated here rather than hidden)",
 ('X3','2'): "C15 M1: the `take_while(..).sum()` / `map(..).sum()` of line_col_for_pos / end_col_for_line rewritten as explicit `+=` loops: new overflow-checked additions that the panic inventory can neither discharge mechanically nor match to a reviewed site (the same limit as in campaigns 3, 4 and 6)",
 ('X7','3'): "C02 P6 / C10 Q1: the string scan moved into closing_quote_end, which walks char_indices() and adds `start + c.len_utf8()` where lex_string summed `total_len += c.len_utf8()`: a different overflow-checked addition under different guards than the reviewed one (verifier-style inventory; bounded by the text length). Every other rule about the callback (L1 bytes, G9 transitions and memory, K14) follows the loop into the helper",
 ('W1','2'): "C15 M1: the iterator `.sum()` of end_col_for_line / line_col_for_pos rewritten as an explicit `+=` loop is a new overflow-checked addition that the panic inventory can neither discharge mechanically nor match to a reviewed site (same limit as in campaigns 3 and 4)",
 ('W6','1'): "C02 P6 / C10 Q1: lex_string walks char_indices() and adds `offset + c.len_utf8()` where it summed `total_len += c.len_utf8()`: the overflow-checked addition is a different construct under different guards than the reviewed one (verifier-style inventory; the addition is bounded by the text length)",
}
for t in sys.argv[1:]:
    notes=json.load(open('%s/%s/notes.json'%(os.environ.get('BSEED','/tmp/bseed'),t)))
    for ch in notes['changes']:
        n=ch['patch'].replace('benign','').replace('.diff','')
        patch='%s/%s/%s'%(os.environ.get('BSEED','/tmp/bseed'),t,ch['patch'])
        d=selfval.scratch_copy(X.REPO)
        try:
            r=subprocess.run(["git","apply","--whitespace=nowarn",patch],cwd=d,capture_output=True,text=True)
            if r.returncode: print(t,n,'NOAPPLY'); continue
            try: fdir,info=X.extract(repo=d,target_dir=os.path.join(X.BUILD,"target-par-%s"%os.environ.get('SLOT','4')))
            except SystemExit: print(t,n,'NOCOMPILE'); continue
        finally: shutil.rmtree(d,ignore_errors=True)
        F=FA.Facts(fdir,info)
        alarms={}
        for pid in CLAIMED:
            mod=importlib.import_module('rules.'+pid.lower()); res=R.Result(pid)
            try: mod.run(F,res,'quick')
            except FA.AnchorMissing as e: res.anchor_missing('anchor',str(e))
            known={k['key'] for k in R.load_known()['findings'] if k['property']==pid}
            bad=[o.full_key() for o in res.obs if o.status=='failed' and o.full_key() not in known]
            if bad: alarms[pid]=bad
        name='benign-%s-%s'%(t.lower(),n)
        ka=KNOWN_ALARM.get((t,n))
        if alarms and not ka:
            print(name,'ALARMS (not imported):',alarms); continue
        dst='/verif/seeded/'+name
        shutil.rmtree(dst,ignore_errors=True); os.makedirs(dst)
        shutil.copy(patch,dst+'/patch.diff')
        meta={"benign":True,"summary":"%s: %s"%(ch.get('kind',''),ch.get('what','')),"why_behaviour_preserving":ch.get('why_behaviour_preserving',''),
              "origin":"sub-agent asked for realistic behaviour-preserving refactorings of a given file set (ninth campaign and its follow-up, aimed at what the rules of rounds 11 and 12 read); no knowledge of the properties or of /verif; it confirmed build + unchanged suite",
              "confirmed":{"how":"all rule modules on a scratch copy of /repo + patch","outcome":"all claimed checks silent" if not alarms else "all claimed checks silent except the documented one"},
              "silent_for":[p for p in CLAIMED if p not in alarms]}
        if ka: meta["known_alarm"]=ka
        json.dump(meta,open(dst+'/meta.json','w'),indent=1)
        print(name,'imported', 'alarms' if alarms else 'silent', {k:v[:2] for k,v in alarms.items()}, flush=True)
