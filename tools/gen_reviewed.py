#!/usr/bin/env python3
"""Expands the per-function review notes below into exact per-site entries of rules/reviewed.json (property C10/Q1).
Run by hand after reading the sites; the check itself only reads rules/reviewed.json. A site whose key matches no
note stays unreviewed (and is reported)."""
import json, os, re, subprocess, sys
ROOT = os.path.dirname(os.path.dirname(os.path.abspath(__file__)))
ARENA = "ids of this arena are only minted by the arena's own alloc() while the same item tree / body is built, and the tree (module_items / body) indexed here is the one the id was read from in the same query revision"
NOTES = [
 # ---- crate syntax
 (r"^<syntax::lexer::GleamLexer as .*>::next/api/Result::unwrap/\d$", "TextSize::try_from(usize) fails only above u32::MAX; parse_module asserts src.len() < u32::MAX before lexing and rename lexes the (short) new name"),
 (r"^<syntax::lexer::GleamLexer as .*>::next/api/TextRange::new/0$", "start and end are the two ends of logos' span(), start <= end"),
 (r"^syntax::(ancestors_at_offset|best_token_at_offset)/api/SyntaxNode::token_at_offset/0$", "asserts offset <= node end: positions handed to the queries lie inside the file (property quantifier); out-of-file positions from the LSP layer are caught by with_catch_unwind (C15/M4)"),
 (r"^syntax::ast::HasDocParts::doc_text::\{closure#0\}/api/Index::index\[str\]/0$", "slices a doc-comment token after its `///` / `////` prefix, whose length is the ASCII prefix just matched by strip_prefix/starts_with"),
 (r"^<syntax::parser::Nested as core::ops::drop::Drop>::drop/assert/Overflow/0$", "a Nested is built only by Parser::nested, on the accepting edge, after the counter was stored as counter + 1 (C02/P5a nesting-guard); it is dropped once, so the counter is >= 1 when it is taken down again"),
 (r"^syntax::parser::Parser::nested/assert/Overflow/0$", "the addition is reached only when depth >= MAX_NESTING failed: depth < 128"),
 (r"^syntax::parser::Parser::can_wrap/assert/Overflow/0$", "depth <= MAX_NESTING (it is counted up only below it) and wraps <= MAX_NESTING (it is counted up only after depth + wraps < MAX_NESTING held): the sum is below 2^9"),
 (r"^syntax::parser::expr_bp/assert/Overflow/[01]$", "wraps += 1 runs only after Parser::can_wrap(wraps) accepted, i.e. depth + wraps < MAX_NESTING"),
 (r"^syntax::parser::Parse::root/api/Option::unwrap/0$", "the root node kind is SOURCE_FILE: module() finishes its first mark with SOURCE_FILE (C01/L5)"),
 (r"^syntax::parser::Parser::build_tree/api/GreenNodeBuilder::finish", "events are balanced: every Open has its Close (C02/P7 mark linearity) and the popped last Close is re-issued after the final flush (C01/L5, L7)"),
 (r"^syntax::parser::Parser::build_tree/assert/Overflow/0$", "n_trivias + 1 <= number of raw tokens"),
 (r"^syntax::parser::Parser::build_tree::\{closure#0\}/api/Option::unwrap/0$", "tokens.get(*pos): C01's counting argument shows pos never passes the raw token list"),
 (r"^syntax::parser::Parser::build_tree::\{closure#0\}/api/Index::index\[str\]/0$", "src[range] with the range logos produced for this very token"),
 (r"^syntax::parser::Parser::build_tree::\{closure#0\}/assert/Overflow/0$", "*pos + 1 <= number of raw tokens"),
 (r"^syntax::parser::Parser::build_tree::\{closure#[1-6]\}/api/Option::unwrap/0$", "tokens.get(it) for it in pos..len, i.e. it < len"),
 (r"^syntax::parser::Parser::bump/assert/Overflow/0$", "pos + 1 <= tokens.len() because bump asserts !eof first"),
 (r"^syntax::parser::Parser::finish_node/api/IndexMut::index_mut\[Vec\]/0$", "m.index was events.len() when the mark was created and events only grow (C01/L5)"),
 (r"^syntax::parser::Parser::nth/assert/Overflow/[01]$", "fuel - 1 is guarded by the fuel == 0 test just above; pos + lookahead with lookahead <= 2"),
 (r"^syntax::parser::Parser::start_node_before/api/Vec::insert/0$", "m.index <= events.len(): it is the index of an event pushed earlier and events only grow"),
 (r"^syntax::parser::parse_module/explicit/assert!/0$", "documented size limit of the parser (u32 offsets); the server rejects documents above 128 MiB on didOpen"),
 (r"^syntax::ptr::AstPtr::<N>::to_node/", "the pointer is resolved against the tree it was created from (see the reviewed callers); the node found has the kind recorded in the pointer, so cast() succeeds"),
 (r"^syntax::token_set::TokenSet::new/assert/(BoundsCheck|Overflow)/0$", "loop index i < kinds.len()"),
 (r"^syntax::token_set::mask/assert/Overflow/0$", "shift amount kind as usize < 128: engine T evaluates mask for every token kind used in a set (C02)"),
 # ---- typed arenas
 (r"^<ide::(base::PackageGraph|def::body::Body|def::lower::ModuleItemData) as core::ops::index::Index<.*>>::index/api/Index::index\[Arena\]/0$", "typed arena index: " + ARENA),
 (r"^<ide::def::hir::\w+ as ide::def::source::HasSource>::source/api/Index::index\[ModuleItemData\]/0$", "module_items(loc.file_id)[loc.value] with loc = lookup_intern_*(id): " + ARENA),
 (r"^<ide::def::hir::\w+ as ide::def::source::HasSource>::source::\{closure#0\}/api/AstPtr::to_node/0$", "the AstPtr stored in module_items(file) is resolved against db.parse(file) of the same revision, the tree it was created from"),
 (r"^ide::def::body::lower/api/(Index::index\[ModuleItemData\]|AstPtr::to_node)/0$", "function data and its AstPtr come from module_items(loc.file_id), resolved against db.parse(loc.file_id) of the same revision"),
 (r"^ide::def::hir::\w+::(data|name|variants|import_from_module_name)/api/Index::index\[ModuleItemData\]/0$", "module_items(loc.file_id)[loc.value] with loc = lookup_intern_*(id): " + ARENA),
 (r"^ide::def::scope::(ModuleScope::resolve_import|module_scope_with_map_query)/api/Index::index\[ModuleItemData\]/0$", "indexes module_items(file) with ids yielded by iterating that same module_items value"),
 (r"^ide::(base::source_root_package::\{closure#0\}|def::hir::Package::(dependencies|dependencies::\{closure#0\}|is_local)|def::search::SearchScope::package_graph)/api/Index::index\[PackageGraph\]/0$", "PackageIds come from iterating db.package_graph() itself or from source_root_package, which finds them in the same graph value"),
 (r"^ide::def::hir::(Adt|Function|ModuleConstant|Variant|Module)::docs/api/Option::expect/0$", "HasSource::source returns Some(..) unconditionally for these definitions"),
 (r"^ide::def::hir::Local::source/", "a Local is only created for a PatternId of the body of `parent` (scopes / inference of that body), and BodySourceMap records every pattern it allocates; the pointer is resolved against db.parse of the file it was created from"),
 (r"^ide::def::hir::Module::import_accessor/api/Option::expect/0$", "str::split always yields at least one piece"),
 (r"^ide::def::hir::Module::name/api/Option::expect/0$", "called only for modules obtained from a module map lookup, an import resolution or a definition inside the file, i.e. files that are in the module map of their source root"),
 (r"^ide::def::scope::ExprScopes::(add_bindings|traverse_expr)/api/Index::index\[Body\]/0$", "ids are children of nodes of the same Body, which lowering allocated in that Body"),
 (r"^ide::def::scope::ExprScopes::(add_bindings/api/IndexMut::index_mut\[Arena\]/[01]|entries/api/Index::index\[Arena\]/0|scope_chain::\{closure#0\}/api/Index::index\[Arena\]/0)$", "ScopeIds are allocated by this ExprScopes' own arena and never removed"),
 (r"^ide::def::search::FindUsages::search::match_indices::\{closure#0\}/api/Result::unwrap/0$", "byte index into a file shorter than 4 GiB (parse_module's limit) converted to TextSize"),
 (r"^ide::def::search::FindUsages::search::\{closure#0\}/api/SyntaxNode::token_at_offset/0$", "offset is a match position inside the text of the very file whose tree is searched"),
 (r"^ide::def::search::FindUsages::set_scope/explicit/assert!/0$", "builder misuse check: every caller sets the scope at most once on a fresh FindUsages"),
 (r"^ide::def::semantics::Definition::to_nav/api/TextRange::new/0$", "TextRange::new(0, 0)"),
 (r"^ide::def::semantics::Semantics::cache/explicit/assert!/0$", "called with parse(..).syntax_node(), a root"),
 (r"^ide::def::semantics::Semantics::cache/explicit/assert!/1$", "roots are keyed by green-tree identity; two files never share one parse result (the parse query is keyed by the file: C10/Q13)"),
 (r"^ide::def::semantics::Semantics::(cache/api/RefCell::borrow_mut|find_file::\{closure#0\}/api/RefCell::borrow|lookup/api/RefCell::borrow)/0$", "the RefCell guard never outlives the statement that takes it and Semantics is single-threaded (per request)"),
 (r"^ide::def::semantics::Semantics::find_file::\{closure#0\}/explicit/panic!/0$", "reached only for a node whose root was not registered by Semantics::parse; every feature parses the file it works on through sema.parse first and nodes of other files reach sema.* only through sema.parse as well (read: goto_definition, references, hover, completion, rename, search)"),
 (r"^ide::def::semantics::find_root/api/Option::unwrap/0$", "ancestors() always yields the node itself first"),
 (r"^ide::ide::(completion::CompletionContext::new|semantic_highlighting::highlight|signature_help::signature_help)/api/SyntaxNode::token_at_offset/0$", "asserts offset <= node end: positions handed to the queries lie inside the file (property quantifier); out-of-file positions from the LSP layer are caught by with_catch_unwind (C15/M4)"),
 (r"^ide::ide::signature_help::SignatureHelp::push_param/api/TextRange::new/0$", "start = signature length before the push, end = length after it"),
 (r"^ide::ide::signature_help::move_element/api/Vec::(remove|insert)/0$", "both indices are checked against len at the top of the function"),
 (r"^ide::ide::signature_help::signature_help_for_call/assert/Overflow/[012]$", "small counters over argument lists (+1) and `len - 1` inside a loop over a non-empty vector"),
 (r"^ide::ty::display::next_letter/assert/(RemainderByZero|DivisionByZero)/0$", "alphabet_length is the constant 26"),
 (r"^ide::ty::display::next_letter/assert/Overflow/[01]$", "n < 26 so n + 97 fits u8; rest -= 1 happens only after the rest == 0 test"),
 (r"^ide::def::body::Body::representative_binder/api/Index::index\[Arena\]/0$", "the pattern id was just answered by this body's own source map (pattern_for_node of body_with_source_map(it)): an id of this arena"),
 (r"^ide::ty::infer::Collector::collect/", "cache was created with table.len() entries and i = table.find(..) < table.len()"),
 (r"^ide::ty::infer::Collector::collect_uncached/assert/Overflow/0$", "uid counts generic letters handed out in one function"),
 (r"^ide::ty::infer::InferCtx::(infer_expr_inner|infer_pattern|infer_stmts_iter)/api/Index::index\[Body\]/\d$", "ids are children of nodes of the same Body, which lowering allocated in that Body"),
 (r"^ide::ty::infer::InferCtx::infer_expr_inner/api/Index::index\[Vec\]/0$", "params[0] guarded by !params.is_empty() in the same condition"),
 (r"^ide::ty::infer::InferCtx::infer_expr_inner/explicit/unreachable!/0$", "a top-level resolver has no expression scopes, so resolve_name cannot return Local"),
 (r"^ide::ty::infer::InferCtx::(infer_pattern::\{closure#3\}|unify::\{closure#0\})/api/Vec::remove/0$", "the index was just returned by find_position on the same vector"),
 (r"^ide::ty::infer::InferCtx::make_ty_from_typeref/assert/Overflow/[012]$", "idx counts fresh type variables of one inference group (u32)"),
 (r"^ide::ty::infer::InferCtx::new_ty_var/assert/Overflow/0$", "idx counts fresh type variables of one inference group (u32)"),
 (r"^ide::ty::infer::infer_function_group_query::\{closure#0\}/assert/Overflow/0$", "idx counts the functions of the group"),
 (r"^ide::ty::infer::finish_infer/api/Option::expect/0$", "fn_ty and body_ctx are filled for exactly the same function ids in the loop of infer_function_group_query"),
 (r"^ide::ty::infer::infer_function_query/api/Option::expect/0$", "dependency_order(file) partitions all functions of the file, and fn_id is a function of that file"),
 (r"^ide::ty::union_find::UnionFind::<T>::(find|get_mut|unify)/api/(Index::index|IndexMut::index_mut)\[Vec\]/\d$", "type variables are indices returned by new()/push() of this table, which never shrinks; find() returns such an index"),
 (r"^ide::ty::union_find::UnionFind::<T>::(get_mut|unify)/api/Option::unwrap/\d$", "a root entry always holds Some(value): unify moves the surviving value into the new root before returning"),
 (r"^ide::ty::union_find::UnionFind::<T>::(new/api/Result::expect|push/api/Option::expect)/0$", "more than u32::MAX type variables"),
 (r"^ide::ty::union_find::UnionFind::<T>::unify/assert/Overflow/0$", "union-by-rank: rank <= log2(len) < 255"),
]
out = subprocess.run([os.path.join(ROOT, "check"), "C10"], capture_output=True, text=True).stdout
keys = [l.split("key ", 1)[1].strip() for l in out.splitlines() if l.startswith("  rule Q1 key ")]
p = os.path.join(ROOT, "rules", "reviewed.json")
rv = json.load(open(p))
cur = rv.setdefault("C10", {})
added, un = 0, []
for k in keys:
    m = [r for pat, r in NOTES if re.search(pat, k)]
    if len(m) == 1:
        cur["Q1/" + k] = {"reason": m[0]}
        added += 1
    else:
        un.append((k, len(m)))
json.dump(rv, open(p, "w"), indent=1)
print("added", added, "unmatched", len(un))
for u in un:
    print("  ", u)
